#!/usr/bin/env python3
"""Regenerate the findings tables of DESIGN.md (between the BEGIN/END markers) from known_findings.json."""
import json, re
k = json.load(open('/verif/known_findings.json'))['findings']
fixed = [e for e in k if e['status'] == 'fixed']
known = [e for e in k if e['status'] == 'known']
def esc(s):
    return s.replace('|', '\\|').replace('\n', ' ')
out = []
out.append('**Repaired in `/repo` by minimal unguarded `fix:` commits** (suite unedited and green after each; listed as\n`fixed` in `known_findings.json`, where they suppress nothing). %d entries:\n' % len(fixed))
out.append('| id | commit | what failed | witness |\n|---|---|---|---|')
for e in fixed:
    what = re.sub(r'^fixed: property=\S+ \S+ ', '', e['what'])
    out.append('| %s | `%s` | %s | `%s` |' % (e['id'], e.get('commit', ''), esc(what), esc(e.get('witness', ''))))
out.append('')
out.append('**Recorded as known findings** (genuine; the repair is not a small safe patch, contradicts a pinned test, or the\nbehaviour is a deliberate design decision of an unfinished/lenient component).  Each has an executable predicate in\nthe check (`kind` + `match`; `rule` predicates are the `RULES` functions of the property module) and produces a\n`KNOWN-FINDING` line when re-observed. %d entries:\n' % len(known))
out.append('| id | witness | what | predicate |\n|---|---|---|---|')
for e in known:
    m = e.get('match', {})
    pred = e['kind'] + (': ' + m['rule'] if 'rule' in m else '') + \
        (': %s in %s:%s `%s`' % (m.get('exc'), m.get('file'), m.get('func'), m.get('line')) if e['kind'] == 'crash-site' else '')
    out.append('| %s | `%s` | %s | %s |' % (e['id'], esc(e.get('witness', '')), esc(e['what']), esc(pred)))
block = '\n'.join(out) + '\n'
s = open('/verif/DESIGN.md').read()
a = s.index('<!-- BEGIN FINDINGS -->') + len('<!-- BEGIN FINDINGS -->\n')
b = s.index('<!-- END FINDINGS -->')
open('/verif/DESIGN.md', 'w').write(s[:a] + block + s[b:])
print(len(fixed), 'fixed', len(known), 'known')
