#!/usr/bin/env python3
"""Write seeded/SUMMARY.md from seeded/*/meta.json."""
import glob, json, os
rows = []
for f in sorted(glob.glob('/verif/seeded/*/meta.json')):
    m = json.load(open(f))
    for prop, c in m.get('checks', {}).items():
        first = next((l for l in c['lines'] if l.strip().startswith('sig=')), '')
        rows.append((m['name'], prop, 'yes' if m.get('confirmed') else 'NO', m.get('suite_with_patch', ''),
                     {1: 'VIOLATION', 0: 'not detected', 2: 'no verdict'}.get(c['rc'], str(c['rc'])), c['wall_s'],
                     first.strip()[:160].replace('|', '\\|')))
with open('/verif/seeded/SUMMARY.md', 'w') as out:
    out.write('# Seeded changes: confirmation and detection (quick tier)\n\n')
    out.write('| seed | check | confirmed (suite passes, demo fails with / passes without) | suite with patch | verdict | wall s | first signature |\n|---|---|---|---|---|---|---|\n')
    for r in rows:
        out.write('| %s | %s | %s | %s | %s | %s | `%s` |\n' % r)
print(len(rows), 'rows')
