#!/bin/bash
# usage: tools/mut.sh <patch.diff> <PROP>[,<PROP>...] [tier] [--tests]
# Applies a patch to a scratch copy of /repo (outside /repo and /verif), optionally runs the repo's test
# suite there, runs the check(s) against the copy, prints the verdict lines and removes the copy.
set -u
patch=$(readlink -f "$1"); props=$2; tier=${3:-quick}; tests=${4:-}
d=$(mktemp -d /tmp/vpmut.XXXXXX)
trap 'rm -rf "$d"' EXIT
rsync -a --exclude .git --exclude __pycache__ /repo/ "$d/repo/"
( cd "$d/repo" && patch -p1 -s < "$patch" ) || { echo "PATCH FAILED"; exit 3; }
if [ "$tests" = "--tests" ]; then
  ( cd "$d/repo" && /venv/bin/python -m pytest -q -p no:cacheprovider -x 2>&1 | tail -2 )
fi
for p in ${props//,/ }; do
  out=$( cd /verif && VP_REPO="$d/repo" VP_OUT="$d/out" timeout 3000 /venv/bin/python -m vp.check "$p" --tier "$tier" 2>&1 ); rc=$?
  echo "== $p rc=$rc"; echo "$out" | grep -E "^(VIOLATION|INTERNAL|OK|    sig=)" | head -8
done
