#!/bin/bash
# usage: tools/run_all.sh <tier> [seed...]   - runs every check, prints one verdict line per check
tier=${1:-quick}; shift
seeds=${@:-0}
cd "$(dirname "$0")/.."
for seed in $seeds; do
  for p in C01 C02 C03 C04 C05 C06 C07 C08 C09 C10 C11 C12 C13 C14 C15 C16 C17 C18 C19 C20; do
    t0=$(date +%s)
    out=$(VERIF_SEED=$seed /venv/bin/python -m vp.check $p --tier $tier 2>&1); rc=$?
    echo "== $p tier=$tier seed=$seed rc=$rc wall=$(( $(date +%s) - t0 ))s"
    echo "$out" | grep -E "^(VIOLATION|INTERNAL|    sig=|    detail|Traceback|[A-Za-z]*Error)" | cut -c1-400 | head -20
  done
done
