#!/bin/bash
# usage: tools/run_seeds.sh "<seeds>" <PROP>...
seeds=$1; shift
cd "$(dirname "$0")/.."
for seed in $seeds; do for p in "$@"; do
  out=$(VERIF_SEED=$seed /venv/bin/python -m vp.check $p --tier quick 2>&1); rc=$?
  echo "== $p seed=$seed rc=$rc"; echo "$out" | grep -E "^(VIOLATION|INTERNAL|    sig=)" | cut -c1-300 | head -6
done; done
