#!/bin/bash
# usage: tools/run_some.sh <tier> <seed> <PROP>...
tier=$1; seed=$2; shift 2
cd "$(dirname "$0")/.."
for p in "$@"; do
  t0=$(date +%s)
  out=$(VERIF_SEED=$seed /venv/bin/python -m vp.check $p --tier $tier 2>&1); rc=$?
  echo "== $p tier=$tier seed=$seed rc=$rc wall=$(( $(date +%s) - t0 ))s"
  echo "$out" | grep -E "^(VIOLATION|INTERNAL|    sig=|    detail|Traceback|[A-Za-z]*Error)" | cut -c1-400 | head -20
done
