#!/usr/bin/env python3
"""Evaluate one seeded change: tools/seed_eval.py <src dir with patch.diff, demo.py, notes.txt> <PROP> <name> [extra props]

Confirms in scratch copies of /repo (outside /repo and /verif): the suite passes with the patch, the
demonstration fails with it and passes without it; then runs the property's check(s) against the
patched copy and stores everything under /verif/seeded/<name>/ (patch.diff, demo.py, meta.json)."""
import json
import os
import re
import shutil
import subprocess
import sys
import tempfile
import time

PY = '/venv/bin/python'


def sh(cmd, cwd=None, env=None, timeout=3600):
    r = subprocess.run(cmd, shell=True, cwd=cwd, env=env, stdout=subprocess.PIPE, stderr=subprocess.STDOUT, timeout=timeout)
    return r.returncode, r.stdout.decode('utf-8', 'replace')


def main():
    src, prop, name = sys.argv[1:4]
    props = [prop] + sys.argv[4:]
    tier = os.environ.get('SEED_TIER', 'quick')
    tmp = tempfile.mkdtemp(prefix='vpseed.')
    meta = {'property': prop, 'name': name, 'evaluated_at': time.strftime('%Y-%m-%d %H:%M:%S')}
    try:
        pristine = os.path.join(tmp, 'pristine')
        patched = os.path.join(tmp, 'patched')
        for d in (pristine, patched):
            sh('rsync -a --exclude .git --exclude __pycache__ /repo/ %s/' % d)
        rc, out = sh('patch -p1 -s < %s' % os.path.abspath(os.path.join(src, 'patch.diff')), cwd=patched)
        if rc != 0:
            print('PATCH FAILED', out)
            return 3
        rc, out = sh('%s -m pytest -q -p no:cacheprovider -x 2>&1 | tail -3' % PY, cwd=patched,
                     env=dict(os.environ, PYTHONPATH=patched, PYTHONDONTWRITEBYTECODE='1'))
        meta['suite_with_patch'] = out.strip().splitlines()[-1] if out.strip() else ''
        suite_ok = ' passed' in meta['suite_with_patch'] and 'failed' not in meta['suite_with_patch']
        demo = open(os.path.join(src, 'demo.py')).read()
        wt = re.search(r'/tmp/wt[234]?_C\d+', demo) or re.search(r'/repo(?=[\'"/])', demo)
        res = {}
        for label, root in (('with_patch', patched), ('without_patch', pristine)):
            d2 = demo.replace(wt.group(0), root) if wt else demo
            p = os.path.join(tmp, 'demo_%s.py' % label)
            open(p, 'w').write(d2)
            rc, out = sh('%s %s' % (PY, p), cwd=tmp, env=dict(os.environ, PYTHONPATH=root, PYTHONDONTWRITEBYTECODE='1'), timeout=600)
            res[label] = {'rc': rc, 'tail': out.strip().splitlines()[-3:]}
        meta['demo'] = res
        demo_ok = res['with_patch']['rc'] != 0 and res['without_patch']['rc'] == 0
        meta['confirmed'] = bool(suite_ok and demo_ok)
        checks = {}
        for p in props:
            t0 = time.time()
            rc, out = sh('%s -m vp.check %s --tier %s' % (PY, p, tier), cwd='/verif',
                         env=dict(os.environ, VP_REPO=patched, VP_OUT=os.path.join(tmp, 'out')), timeout=7200)
            lines = [l for l in out.splitlines() if l.startswith(('VIOLATION', 'INTERNAL', 'OK ', '    sig='))]
            checks[p] = {'rc': rc, 'tier': tier, 'wall_s': round(time.time() - t0), 'detected': rc == 1,
                         'lines': [l[:300] for l in lines[:8]]}
        meta['checks'] = checks
        notes = os.path.join(src, 'notes.txt')
        old_meta = os.path.join(src, 'meta.json')
        meta['needs_to_manifest'] = open(notes).read().strip() if os.path.exists(notes) else \
            (json.load(open(old_meta)).get('needs_to_manifest', '') if os.path.exists(old_meta) else '')
        meta['ran'] = ['suite: cd <patched copy> && %s -m pytest -q -p no:cacheprovider -x' % PY,
                       'demo with/without patch', 'checks: VP_REPO=<patched copy> %s -m vp.check <prop> --tier %s' % (PY, tier)]
        dst = os.path.join('/verif/seeded', name)
        os.makedirs(dst, exist_ok=True)
        if os.path.abspath(src) != os.path.abspath(dst):
            shutil.copy(os.path.join(src, 'patch.diff'), os.path.join(dst, 'patch.diff'))
        open(os.path.join(dst, 'demo.py'), 'w').write(demo.replace(wt.group(0), '/repo') if wt else demo)
        json.dump(meta, open(os.path.join(dst, 'meta.json'), 'w'), indent=1)
        print(json.dumps({'name': name, 'confirmed': meta['confirmed'], 'suite': meta['suite_with_patch'],
                          'demo': {k: v['rc'] for k, v in res.items()},
                          'checks': {p: (c['rc'], c['wall_s']) for p, c in checks.items()}}))
        for p, c in checks.items():
            for l in c['lines'][:4]:
                print('   ', l[:220])
        return 0
    finally:
        shutil.rmtree(tmp, ignore_errors=True)


if __name__ == '__main__':
    sys.exit(main())
