"""Regenerate MANIFEST.json from the table below (run by hand after adding a check)."""
import json, os
PY = '/venv/bin/python'
PROPS = json.load(open(os.path.join(os.path.dirname(__file__), 'manifest_table.json')))
ALL = ['C%02d' % i for i in range(1, 21)]
checks = []
for pid in ALL:
    e = PROPS['checks'].get(pid)
    if not e:
        continue
    checks.append({
        'property_id': pid,
        'quick_cmd': '%s -m vp.check %s --tier quick' % (PY, pid),
        'thorough_cmd': '%s -m vp.check %s --tier thorough' % (PY, pid),
        'evidence_file': '/verif/evidence/%s.json' % pid,
        'replay_cmd_template': '%s -m vp.replay {path}' % PY,
        'engine': e['engine'],
        'level_claimed': {'category': e['level'], 'text': e['text'], 'design_ref': e['design_ref']},
        'level_note': e['note'],
        'technique': e['technique'],
    })
na = [{'property_id': p, 'reason': PROPS['not_applicable'].get(p, 'check not built yet (work in progress); will be claimed once its exhaustive exploration exists')}
      for p in ALL if p not in PROPS['checks']]
m = {
    'version': 1,
    'setup_cmd': 'cd /verif && %s -m compileall -q vp >/dev/null && %s -m vp.selftest' % (PY, PY),
    'hooks': {'guard': 'PARSO_VERIF', 'enable': 'no source hooks: checks observe parso from outside (public API, generator frames, sys.settrace, FileIO subclass, module attribute shims)',
              'baseline_off_cmd': 'cd /repo && /venv/bin/python -m pytest -ra -q -p no:cacheprovider --timeout=900 --continue-on-collection-errors',
              'source_commits': [], 'add_only': True},
    'engines': PROPS['engines'],
    'checks': checks,
    'notes': PROPS['notes'],
    'not_applicable': na,
}
json.dump(m, open(os.path.join(os.path.dirname(__file__), 'MANIFEST.json'), 'w'), indent=1)
print('checks:', [c['property_id'] for c in checks], 'not_applicable:', [n['property_id'] for n in na])
