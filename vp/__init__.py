"""Bounded exhaustive exploration ("model checking the implementation") for davidhalter/parso.

See /verif/DESIGN.md.  Every check imports parso from $VP_REPO (default /repo)."""
