"""Named lexeme alphabets and the Sigma^{<=n} enumerator (engine E-A).

Enumeration order is shortlex over the alphabet order (simplest symbol first).  Texts are
de-duplicated globally: a text is owned by shard crc32(text) % nshards and each shard keeps a set,
so two different words that spell the same text are executed once."""
import itertools
import zlib

BOM = '\ufeff'

ALPHABETS = {
    'chars': ['a', '1', ' ', '\n', '\t', '\f', '#', '\\', "'", '"', '(', '{', ':', '}', ')', 'f', 'r',
              '=', '!', '.', '\r'],
    'ws': ['a', '\n', '\r', '\r\n', '\f', BOM, ' ', '\t', '#', '\\', '\x0b', '\x1c', '\x85', '\xa0', '(',
           '\xe9', '$', '=', ','],
    'blocks': ['a', ' ', '\n', '  ', ':', 'if ', 'def f()', 'else', 'pass', '(', ')', '\t', '\\\n', '#c',
               ';', '$'],
    'strs': ['a', "'", '"', '"""', "f'", 'f"""', '{', '}', '\n', '\\', ':', ' ', '!r', "rb'", '(', 'def'],
    'ops': ['a', '1', '=', ':=', ',', '*', '**', '(', ')', '[', ']', '{', '}', 'lambda', ':', ' ', '\n',
            '.', 'not ', 'in ', '=='],
    'stm': ['a', ' ', '\n', '    ', ':', 'if a', 'while a', 'for a in a', 'try', 'except', 'finally', 'else',
            'with a', 'class a', 'def a(a)', '@a', 'async ', ';', 'elif a'],
    'stm2': ['l', '\n', '  ', '    ', ':', 'return', 'import a', 'from a import', ' as a', ',', '*', '(', ')',
             'global a', 'del a', 'assert a', 'raise', 'yield', 'await ', '=', ' ', '.', 'None', '!=',
             'is not '],
    'sem': ['__debug__', 'await ', ':', ' ', '\n', 'a', '=', 'global __debug__', 'def f()', '  ', '.', '(',
            ')', ',', '[0]', 'for ', 'in ', 'nonlocal a', 'async '],
    'num': ['0', '1', '9', '_', '.', 'e', 'j', 'x', 'b', 'o', '+', '-', ' ', 'a', 'f'],
    'opchars': ['a', '<', '>', '=', '!', '-', '*', '/', ':', '.', '@', '%', '&', '|', '~', ' ', '1'],
    'indent': ['a', '\n', ' ', '  ', '   ', '\t', ':', '(', ')', 'def', 'class', '#c', '\\\n', '\f', 'if a:',
               '"""', "f'{"],
    'strchars': ['a', "'", '"', '\\', '\n', 'b', 'r', 'f', 'u', ' ', '{', '}', '#'],
    'fws': ["f'", 'f"""', '{', '}', "'", '"""', 'a', ' ', '\n', '\x0b', '\x1c', '\x85', '\xa0', '\u2028', ':',
            '\\', '#', '\r', '\f', '!r'],
    'pep8': ['def a(): pass\n', 'class B: pass\n', '\n', '#c\n', '    x = 1\n', 'import os\n', 'x = 1\n', 'def f():\n',
             '    return\n', '@d\n', 'x=1  # c\n', 'if a :\n', '\t', '  ', 'y = (\n', ')\n'],
    'contstr': ["'", '"', '\\\n', 'a', 'b', 'r', '\n', ' ', "'''", '\\'],
    'ffc': ['#', '\f', 'x', '\n', ' ', 'a', 'if a:'],
    'lines15': ['a', ' ', '\n', '\r', '\f', '\x0b', '\x1c', '\x1d', '\x1e', '\x85', '\u2028', '\u2029'],
    # every character str.splitlines breaks on but Python does not, inside strings, comments and between tokens
    'ctl': ['a', "'", '#', '\n', ' ', '\x0b', '\x0c', '\x1c', '\x1d', '\x1e', '\x1f', '\x85', '\u2028',
            '\u2029', '"""', '\\'],
    # C12/C14 oriented
    'expr': ['a', '1', "'s'", 'f"{a}"', '=', ':=', ',', '*', '**', '(', ')', '[', ']', '{', '}', 'lambda',
             ':', ' ', '\n', '.', 'not ', 'in ', 'for a in a', 'if a', 'else', 'await ', 'yield', '...'],
    'stmt': ['a', '\n', ' ', '    ', ':', '=', 'def f(a)', 'class C', 'return', 'yield', 'await a', 'async ',
             'global a', 'nonlocal a', 'a = 1', 'a: int', 'del a', 'lambda: ', '(', ')', 'import a',
             'from a import *', 'pass', 'for a in a', 'if a', 'with a as a'],
    'bind': ['a', '1', "'s'", '=', ':=', ',', '*', '(', ')', '[', ']', '{', '}', 'lambda ', ':', ' ', '\n',
             '.b', 'for a in a', 'if a', 'else', ' += ', 'del ', '[0]'],
    'bindstmt': ['a', '\n', ' ', '    ', ':', '=', 'def f(a)', 'class C', 'return', 'yield', 'async ',
                 'global a', 'a = 1', 'a: int', 'del a', 'lambda b: ', '(', ')', 'import a.b',
                 'from . import a as c', 'pass', 'for a, *b in a', 'with a as (b, c.d)', 'try',
                 'except E as e', 'f(a := 1)', "'doc'"],
}

BYTES_ALPHABETS = {
    'bytes15': [b'#', b'coding', b':', b'=', b' ', b'utf-8', b'latin-1', b'\n', b'\r', b'\xef\xbb\xbf',
                b'\xe9', b'\xc3\xa9', b'x', b'-*-', b'cp1252', b'nope', b'\f', b'a = 1', b'iso8859_15', b'\xa4'],
}


def _needs_dedupe(al):
    return any(len(s) != 1 for s in al)


def _key(t):
    if isinstance(t, str):
        t = t.encode('utf-8', 'surrogatepass')
    return zlib.crc32(t)


def words(al, n_lo, n_hi):
    empty = al[0][:0]
    for k in range(n_lo, n_hi + 1):
        for tup in itertools.product(al, repeat=k):
            yield empty.join(tup)


def enum(name, n, shard=0, nshards=1, n_lo=0, slice_mod=None, slice_eq=0):
    """All distinct texts over alphabet `name` with n_lo..n symbols that belong to this shard.
    With slice_mod, only texts whose crc32 // nshards % slice_mod == slice_eq (the seed slice)."""
    al = ALPHABETS.get(name) or BYTES_ALPHABETS[name]
    if not _needs_dedupe(al):
        i = -1
        for t in words(al, n_lo, n):
            i += 1
            if i % nshards != shard:
                continue
            if slice_mod and (_key(t) // 7919) % slice_mod != slice_eq:
                continue
            yield t
        return
    seen = set()
    empty = al[0][:0]
    for k in range(0, n + 1):
        for tup in itertools.product(al, repeat=k):
            t = empty.join(tup)
            h = _key(t)
            if h % nshards != shard:
                continue
            if slice_mod and k >= n_lo and (h // 7919) % slice_mod != slice_eq:
                continue
            if t in seen:
                continue
            seen.add(t)
            if k >= n_lo:
                yield t


def describe(name):
    al = ALPHABETS.get(name) or BYTES_ALPHABETS[name]
    return [s if isinstance(s, str) else repr(s) for s in al]
