"""CLI: python -m vp.check <property id> [--tier quick|thorough] [--replay file]"""
import argparse
import importlib
import os
import sys


def main():
    from . import env
    env.reexec_deterministic()
    ap = argparse.ArgumentParser()
    ap.add_argument('prop')
    ap.add_argument('--tier', default=os.environ.get('VERIF_TIER', 'quick'), choices=['quick', 'thorough'])
    ap.add_argument('--replay')
    a = ap.parse_args()
    seed = int(os.environ.get('VERIF_SEED', '0') or 0)
    env.setup()
    mod = importlib.import_module('vp.props.' + a.prop.lower())
    if a.replay:
        from . import replay
        sys.exit(replay.run(a.replay))
    print('check %s tier=%s seed=%d repo=%s nproc=%d' % (a.prop, a.tier, seed, env.REPO, env.NPROC))
    sys.stdout.flush()
    try:
        rc = mod.run(a.tier, seed)
    except BaseException as e:
        if isinstance(e, (KeyboardInterrupt, SystemExit)):
            raise
        # exit 1 is reserved for "VIOLATION ... replay=..." - an exception here is a harness problem
        import traceback
        traceback.print_exc()
        print('INTERNAL-ERROR property=%s (uncaught exception in the check, no verdict)' % a.prop)
        rc = 2
    sys.stdout.flush()
    sys.exit(rc)


if __name__ == '__main__':
    main()
