"""C05 matcher: does every non-error node's child sequence belong to its rule's language (reference
automaton), modulo the documented tree conventions?"""
import ast as pyast

from . import refgrammar as RG
from .refgrammar import S_deriv, S_firsts, S_nullable

TERM_LEAF = {'NAME': 'name', 'NUMBER': 'number', 'STRING': 'string', 'NEWLINE': 'newline',
             'ENDMARKER': 'endmarker', 'FSTRING_START': 'fstring_start', 'FSTRING_STRING': 'fstring_string',
             'FSTRING_END': 'fstring_end'}
# keyword statements: the parser names these nodes after the rule (tree conventions in python/tree.py)


def is_err(c):
    return c.type in ('error_node', 'error_leaf')


def at_eof(node, relaxed=None):
    """the node's last leaf is followed (modulo zero-width dedent leaves) by the end marker"""
    last = node.get_last_leaf()
    if relaxed and last.start_pos in relaxed:
        return True
    l = last.get_next_leaf()
    while l is not None and l.type == 'error_leaf' and l.token_type in ('DEDENT', 'ERROR_DEDENT', 'INDENT') \
            and not l.value:
        l = l.get_next_leaf()
    return l is not None and l.type == 'endmarker'


class V:  # virtual leaf
    def __init__(self, t):
        self.type = t
        self.value = ''


class Conform:
    def __init__(self, version):
        self.ref = RG.load(version)
        self._lit = {}
        self.relaxed = None   # set of leaf start positions treated like end-of-file (known-finding rule only)

    def lit(self, Y):
        v = self._lit.get(Y)
        if v is None:
            v = self._lit[Y] = pyast.literal_eval(Y)
        return v

    def sym_matches(self, X, child, eof_ok=True):
        """does grammar symbol X (possibly through single-child collapsing) match this child?"""
        ref = self.ref
        if is_err(child):
            return X in ('stmt', 'suite')
        eof = eof_ok and not isinstance(child, V) and at_eof(child, self.relaxed)
        ct = child.type
        for Y in ref.closure(X, eof):
            if Y in ref.rules:
                if hasattr(child, 'children') and (ct == Y or (Y == 'lambdef_nocond' and ct == 'lambdef')):
                    return True
            elif Y[0] in '\'"':
                if ct in ('keyword', 'operator') and child.value == self.lit(Y):
                    return True
            elif Y in ('INDENT', 'DEDENT'):
                if ct == Y:
                    return True
            else:
                if ct == TERM_LEAF.get(Y) and not hasattr(child, 'children'):
                    return True
        return False

    def accepts(self, rule, children, allow_eof_newline=False, errors_as_stmt=False):
        S = frozenset({self.ref.rules[rule]})
        for c in children:
            if errors_as_stmt and is_err(c):
                # an error node/leaf stands for a statement or is skipped between statements
                S = frozenset(S | S_deriv(S, 'stmt'))
                continue
            nxt = set()
            for a in S_firsts(S):
                if self.sym_matches(a, c):
                    nxt |= S_deriv(S, a)
            S = frozenset(nxt)
            if not S:
                return False
        if S_nullable(S):
            return True
        if allow_eof_newline and S_nullable(S_deriv(S, 'NEWLINE')):
            return True
        return False

    def check_node(self, n, root):
        """None if the node conforms, else a reason string."""
        ref = self.ref
        t = n.type
        ch = list(n.children)
        if t == 'error_node':
            return None
        if not ch:
            return 'empty node'
        if t == 'param':
            return self.check_param(n)
        if len(ch) == 1 and n is not root:
            return 'single-child node not collapsed'
        if t not in ref.rules:
            return 'unknown rule %s' % t
        if t == 'suite':
            if ch[0].type == 'newline':
                ch = [ch[0], V('INDENT')] + ch[1:] + [V('DEDENT')]
            return None if self.accepts('suite', ch, errors_as_stmt=True) else 'suite mismatch'
        if t == 'file_input':
            return None if self.accepts('file_input', ch, errors_as_stmt=True) else 'file_input mismatch'
        if t in ('parameters', 'lambdef'):
            flat = []
            for c in ch:
                if c.type == 'param':
                    flat += list(c.children)
                else:
                    flat.append(c)
            if t == 'parameters':
                if len(flat) < 2 or not (flat[0].type == 'operator' and flat[0].value == '('
                                         and flat[-1].type == 'operator' and flat[-1].value == ')'):
                    return 'parameters parens'
                inner = flat[1:-1]
                lst = 'typedargslist'
            else:
                if len(flat) < 3 or not (flat[0].type == 'keyword' and flat[0].value == 'lambda'
                                         and flat[-2].type == 'operator' and flat[-2].value == ':'):
                    return 'lambdef frame'
                body_ok = self.sym_matches('test', flat[-1]) or \
                    ('test_nocond' in ref.rules and self.sym_matches('test_nocond', flat[-1]))
                if not body_ok:
                    return 'lambdef body'
                inner = flat[1:-2]
                lst = 'varargslist'
            if len(inner) == 0:
                return None
            if len(inner) == 1:
                return None if self.sym_matches(lst, inner[0]) else 'single param mismatch'
            return None if self.accepts(lst, inner) else '%s mismatch' % lst
        ok = self.accepts(t, ch, allow_eof_newline=(t == 'simple_stmt' and at_eof(n, self.relaxed)))
        return None if ok else '%s mismatch' % t

    def check_param(self, n):
        """the documented grouping: one parameter = ['*' | '**'] (name | tfpdef) ['=' default] [','];
        a bare '*' and the positional-only marker '/' (with their commas) stay outside of param nodes"""
        ch = list(n.children)
        i = 0
        if ch and ch[0].type == 'operator' and ch[0].value in ('*', '**'):
            i = 1
        if i >= len(ch):
            return 'param without a name'
        c = ch[i]
        if c.type == 'name':
            pass
        elif c.type == 'tfpdef':
            k = c.children
            if not (len(k) == 3 and k[0].type == 'name' and k[1].type == 'operator' and k[1].value == ':'):
                return 'param: malformed tfpdef'
        else:
            return 'param does not start with a name'
        i += 1
        if i < len(ch) and ch[i].type == 'operator' and ch[i].value == '=':
            if i + 1 >= len(ch) or (ch[i + 1].type == 'operator' and ch[i + 1].value == ','):
                return 'param: default missing'
            i += 2
        if i < len(ch) and ch[i].type == 'operator' and ch[i].value == ',':
            i += 1
        if i != len(ch):
            return 'param with extra children'
        if n.parent is None or n.parent.type not in ('parameters', 'lambdef'):
            return 'param outside parameters/lambdef'
        return None

    def error_placement(self, n):
        """errors may only occur where a statement or block is expected"""
        t = n.type
        if t == 'error_node' or not hasattr(n, 'children'):
            return None
        bad = [c for c in n.children if is_err(c)]
        if not bad:
            return None
        if t in ('file_input', 'suite'):
            return None
        # position where the parent's rule expects `suite` (a recovered one-line block): handled by accepts()
        # through sym_matches(error -> 'stmt'/'suite'); anything else is misplaced
        if t in self.ref.rules:
            S = frozenset({self.ref.rules[t]})
            for c in n.children:
                if is_err(c):
                    if 'suite' not in S_firsts(S):
                        return 'error child of %s where no block is expected' % t
                    S = S_deriv(S, 'suite')
                    continue
                nxt = set()
                for a in S_firsts(S):
                    if self.sym_matches(a, c):
                        nxt |= S_deriv(S, a)
                S = frozenset(nxt)
                if not S:
                    return None  # mismatch is reported by check_node
            return None
        return 'error child of %s' % t

    def check_tree(self, m):
        out = []
        stack = [m]
        while stack:
            n = stack.pop()
            if not hasattr(n, 'children'):
                continue
            r = self.check_node(n, m)
            if r:
                out.append((r, n))
            else:
                r2 = self.error_placement(n)
                if r2:
                    out.append((r2, n))
            if n.type != 'error_node':
                stack.extend(reversed(n.children))
        return out
