"""Shard/merge runner, failure accumulator, known-findings matcher, evidence and replay writers."""
import collections
import hashlib
import json
import multiprocessing
import os
import sys
import time
import traceback

from . import env

KNOWN_FILE = os.path.join(env.VERIF, 'known_findings.json')
# mutation demonstrations redirect evidence/replays so that the committed evidence is never theirs
OUT = os.environ.get('VP_OUT') or env.VERIF


# --------------------------------------------------------------------------- signatures
def exc_sig(e):
    """(exception type, parso-relative file, function, stripped source line) of the innermost parso
    frame - robust to line renumbering; a different line or type is a different signature."""
    tb = traceback.extract_tb(e.__traceback__)
    marker = os.sep + 'parso' + os.sep
    fr = [f for f in tb if os.path.realpath(f.filename).startswith(env.REPO + os.sep)]
    if fr:
        f = fr[-1]
        fn = os.path.realpath(f.filename)[len(env.REPO) + 1:]
        if fn.startswith('parso' + os.sep):
            fn = fn[len('parso') + 1:]
        return (type(e).__name__, fn, f.name, (f.line or '').strip())
    f = tb[-1] if tb else None
    if f is None:
        return (type(e).__name__, '?', '?', '?')
    return (type(e).__name__, os.path.basename(f.filename), f.name, (f.line or '').strip())


def case_size(case):
    if isinstance(case, dict):
        if 'text' in case and isinstance(case['text'], str):
            return (len(case['text']), case['text'])
        if 'history' in case:
            return (len(case['history']), json.dumps(case['history'], sort_keys=True, default=repr))
    s = json.dumps(case, sort_keys=True, default=repr)
    return (len(s), s)


# --------------------------------------------------------------------------- known findings
class Findings:
    """Entries of known_findings.json with status 'known' for one property.  Never written here."""

    def __init__(self, prop):
        self.prop = prop
        self.entries = []
        self.fixed = []
        if os.path.exists(KNOWN_FILE):
            with open(KNOWN_FILE) as f:
                data = json.load(f)
            for e in data.get('findings', []):
                if e.get('property') != prop:
                    continue
                if e.get('status') == 'known':
                    self.entries.append(e)
                else:
                    self.fixed.append(e)

    def match(self, sig, case, rules=None, extra=None):
        """Return the id of the first known entry whose executable predicate holds for this failing case."""
        for e in self.entries:
            m = e.get('match', {})
            k = e.get('kind')
            want = m.get('sig')
            if want is not None and list(sig[:len(want)]) != list(want):
                continue
            if k == 'crash-site':
                cs = [m.get('exc'), m.get('file'), m.get('func'), m.get('line')]
                if list(sig[-4:]) == cs:
                    return e['id']
            elif k == 'input':
                if isinstance(case, dict) and case.get('text') == m.get('text') and \
                        ('version' not in m or case.get('version') in m['version']):
                    return e['id']
            elif k == 'sig':
                if want is not None:
                    return e['id']
            elif k == 'rule':
                fn = (rules or {}).get(m.get('rule'))
                if fn is not None:
                    try:
                        ok = fn(case, sig, extra, m)
                    except Exception:
                        ok = False
                    if ok:
                        return e['id']
        return None


# --------------------------------------------------------------------------- accumulator
class Acc:
    """Mergeable per-shard result."""

    def __init__(self):
        self.evaluations = 0
        self.nontrivial = 0
        self.fails = {}      # (finding or None, sig) -> [count, size, case, detail]
        self.samples = []
        self.counters = collections.Counter()
        self.classify = None  # set by worker: fn(sig, case, extra) -> finding id | None

    def fail(self, sig, case, detail='', extra=None):
        sig = tuple(str(x) for x in sig)
        finding = self.classify(sig, case, extra) if self.classify else None
        key = (finding, sig)
        size = case_size(case)
        cur = self.fails.get(key)
        if cur is None:
            self.fails[key] = [1, size, case, detail]
        else:
            cur[0] += 1
            if size < cur[1]:
                cur[1], cur[2], cur[3] = size, case, detail
        return finding

    def merge(self, other):
        self.evaluations += other.evaluations
        self.nontrivial += other.nontrivial
        self.counters.update(other.counters)
        for key, v in other.fails.items():
            cur = self.fails.get(key)
            if cur is None:
                self.fails[key] = list(v)
            else:
                cur[0] += v[0]
                if tuple(v[1]) < tuple(cur[1]):
                    cur[1], cur[2], cur[3] = v[1], v[2], v[3]
        for s in other.samples:
            if len(self.samples) < 12:
                self.samples.append(s)

    def strip(self):
        self.classify = None
        return self


# --------------------------------------------------------------------------- pool
_POOL = None


def pool():
    global _POOL
    if _POOL is None:
        ctx = multiprocessing.get_context('fork')
        _POOL = ctx.Pool(env.NPROC)
    return _POOL


def close_pool():
    global _POOL
    if _POOL is not None:
        _POOL.close()
        _POOL.join()
        _POOL = None


def _call(args):
    modname, fname, a = args
    import importlib
    mod = importlib.import_module(modname)
    try:
        return ('ok', getattr(mod, fname)(*a))
    except BaseException as e:     # a harness crash must never look like a pass
        return ('harness-error', ''.join(traceback.format_exception(type(e), e, e.__traceback__)))


class HarnessError(Exception):
    pass


def pmap(modname, fname, arglist, chunksize=1):
    """Unordered parallel map of module-level function over argument tuples (results merged
    order-independently by the callers)."""
    tasks = [(modname, fname, a) for a in arglist]
    if env.NPROC <= 1:
        it = map(_call, tasks)
    else:
        it = pool().imap_unordered(_call, tasks, chunksize)
    for st, r in it:
        if st != 'ok':
            raise HarnessError(r)
        yield r


# --------------------------------------------------------------------------- report
class Report:
    def __init__(self, prop, tier, seed, level):
        self.prop = prop
        self.tier = tier
        self.seed = seed
        self.level = level
        self.t0 = time.time()
        self.acc = Acc()
        self.sections = []
        self.coverage = {}
        self.assumptions = []
        self.rule = ''
        self.exhaustive = True
        self.findings = Findings(prop)
        self.notes = []

    def section(self, name, acc, **info):
        d = dict(name=name, evaluations=acc.evaluations, nontrivial=acc.nontrivial,
                 failures=sum(v[0] for v in acc.fails.values()))
        d.update(info)
        self.sections.append(d)
        self.acc.merge(acc)
        sys.stdout.write('  [%s] %s: %d evaluations, %d non-trivial, %d failing%s (t=%.0fs)\n' % (
            self.prop, name, acc.evaluations, acc.nontrivial, d['failures'],
            ''.join(' %s=%s' % kv for kv in sorted(info.items()) if not isinstance(kv[1], (list, dict))),
            time.time() - self.t0))
        sys.stdout.flush()

    def finish(self, recheck=None):
        """recheck(case) -> set of signatures observed when the case is executed again on its own."""
        known = collections.OrderedDict()
        viols = []
        for (finding, sig), (count, size, case, detail) in sorted(
                self.acc.fails.items(), key=lambda kv: (str(kv[0][0]), kv[0][1])):
            if finding is not None:
                k = known.setdefault(finding, [0, None, None, None])
                k[0] += count
                if k[1] is None or tuple(size) < tuple(k[1]):
                    k[1], k[2], k[3] = size, case, sig
            else:
                viols.append((sig, count, case, detail))
        # every reported counterexample is executed again twice; disagreement = harness defect
        internal = False
        unstable = 0
        confirmed = []
        for sig, count, case, detail in viols:
            if recheck is not None:
                try:
                    a = recheck(case)
                    b = recheck(case)
                except Exception as e:
                    print('INTERNAL: re-execution of a witness raised: %r' % (e,))
                    traceback.print_exc()
                    internal = True
                    continue
                if (sig in a) != (sig in b):
                    print('UNSTABLE: witness fails in only one of two re-executions (nondeterminism in the code under '
                          'test or in the harness) sig=%r case=%r' % (sig, case))
                    unstable += 1
                    continue
                if sig not in a:
                    print('UNCONFIRMED: witness does not reproduce in isolation sig=%r case=%r got=%r'
                          % (sig, case, sorted(a)))
                    unstable += 1
                    continue
            confirmed.append((sig, count, case, detail))
        by_id = {e['id']: e for e in self.findings.entries}
        for fid, (count, size, case, sig) in known.items():
            e = by_id.get(fid, {})
            print('KNOWN-FINDING: property=%s %s %s (cases=%d) witness=%s' % (
                self.prop, fid, e.get('what', ''), count, json.dumps(case, ensure_ascii=True, default=repr)))
        for e in self.findings.entries:
            if e['id'] not in known:
                print('NOT-REPRODUCED: property=%s %s (listed as known, not observed in this run)' % (
                    self.prop, e['id']))
        replay_paths = []
        for sig, count, case, detail in confirmed:
            path = write_replay(self.prop, sig, case, detail, count)
            replay_paths.append(path)
            print('VIOLATION property=%s replay=%s' % (self.prop, path))
            print('    sig=%s cases=%d witness=%s' % (json.dumps(sig), count,
                                                    json.dumps(case, ensure_ascii=True, default=repr)))
            if detail:
                print('    detail: %s' % (detail[:600],))
        cov = dict(self.coverage)
        cov.setdefault('evaluations', self.acc.evaluations)
        cov.setdefault('distinct_nontrivial', self.acc.nontrivial)
        cov.setdefault('rule', self.rule)
        cov.setdefault('samples', self.acc.samples[:12])
        cov['exhaustive'] = bool(self.exhaustive)
        cov['sections'] = self.sections
        cov['known_findings_observed'] = {k: v[0] for k, v in known.items()}
        cov['counters'] = dict(self.acc.counters)
        if self.notes:
            cov['notes'] = self.notes
        ev = dict(property_id=self.prop, tier=self.tier, seed=self.seed, level=self.level,
                  coverage=cov, assumptions=self.assumptions, wall_s=round(time.time() - self.t0, 2),
                  violations=len(confirmed))
        write_evidence(self.prop, ev)
        close_pool()
        if (internal or unstable) and not confirmed:
            print('INTERNAL-ERROR property=%s (harness defect or unstable witnesses only, no verdict)' % self.prop)
            return 2
        if confirmed:
            return 1
        print('OK property=%s tier=%s evaluations=%d nontrivial=%d known=%d wall=%.1fs' % (
            self.prop, self.tier, cov['evaluations'], cov['distinct_nontrivial'], len(known),
            time.time() - self.t0))
        return 0


def write_replay(prop, sig, case, detail, count=1):
    d = os.path.join(OUT, 'replays', prop)
    os.makedirs(d, exist_ok=True)
    body = dict(property=prop, sig=list(sig), case=case, detail=detail, cases=count,
                repo=env.REPO)
    blob = json.dumps(dict(property=prop, sig=list(sig), case=case), sort_keys=True, default=repr)
    name = hashlib.sha1(blob.encode('utf-8', 'surrogatepass')).hexdigest()[:16] + '.json'
    path = os.path.join(d, name)
    with open(path, 'w') as f:
        json.dump(body, f, indent=1, default=repr)
    return path


def _check_evidence(ev):
    """Minimal structural validation (mirror of EVIDENCE.schema.json's requirements)."""
    for k in ('property_id', 'tier', 'seed', 'level', 'coverage', 'wall_s'):
        assert k in ev, k
    assert ev['tier'] in ('quick', 'thorough')
    assert isinstance(ev['seed'], int)
    c = ev['coverage']
    lvl = ev['level']
    if lvl in ('exploration', 'fault_enumeration'):
        assert isinstance(c['evaluations'], int) and c['evaluations'] >= 1
        assert isinstance(c['distinct_nontrivial'], int) and c['distinct_nontrivial'] >= 2, c['distinct_nontrivial']
        assert isinstance(c['rule'], str)
        assert isinstance(c['samples'], list) and c['samples']
    elif lvl == 'model_checking':
        assert c['states'] >= 1 and c['transitions'] >= 1 and c['traces_validated_against_impl'] >= 0
        assert isinstance(c['samples'], list) and c['samples']


def write_evidence(prop, ev):
    try:
        _check_evidence(ev)
    except (AssertionError, KeyError) as e:
        # e.g. a run in which every case failed before it was counted as non-trivial: the verdict stands, the
        # evidence file is written as measured (it will not validate as evidence of a passing run)
        print('note: evidence does not satisfy the schema minimums (%r)' % (e,))
    d = os.path.join(OUT, 'evidence')
    os.makedirs(d, exist_ok=True)
    path = os.path.join(d, prop + '.json')
    tmp = path + '.tmp'
    with open(tmp, 'w') as f:
        json.dump(ev, f, indent=1, default=repr, ensure_ascii=True)
        f.write('\n')
    os.replace(tmp, path)
    return path
