"""Client side of the CPython reference workers (engine E-R)."""
import json
import os
import subprocess

from . import env

WORKER = os.path.join(os.path.dirname(os.path.abspath(__file__)), 'cpyref_worker.py')


class Ref:
    def __init__(self, version):
        self.version = version
        self.exe = env.ref_python(version)
        self.proc = None

    def available(self):
        return self.exe is not None

    def _start(self):
        e = dict(os.environ)
        e.pop('PYTHONHASHSEED', None)
        e['PYTHONDONTWRITEBYTECODE'] = '1'
        self.proc = subprocess.Popen([self.exe, '-S', '-E', WORKER], stdin=subprocess.PIPE,
                                     stdout=subprocess.PIPE, env=e)

    def call(self, mode, texts):
        if self.proc is None:
            self._start()
        out = []
        B = 2000
        for i in range(0, len(texts), B):
            req = json.dumps({'mode': mode, 'texts': texts[i:i + B]}) + '\n'
            self.proc.stdin.write(req.encode('utf-8'))
            self.proc.stdin.flush()
            line = self.proc.stdout.readline()
            if not line:
                raise RuntimeError('reference worker %s died' % self.exe)
            out += json.loads(line.decode('utf-8'))
        return out

    def close(self):
        if self.proc is not None:
            try:
                self.proc.stdin.close()
                self.proc.wait(timeout=10)
            except Exception:
                self.proc.kill()
            self.proc = None


_refs = {}


def get(version):
    r = _refs.get(version)
    if r is None:
        r = _refs[version] = Ref(version)
    return r
