# Reference worker; must run under CPython 3.6 ... 3.13 (keep the syntax 3.6 compatible).
# Protocol: one JSON object per line on stdin {"mode": "tokenize"|"compile", "texts": [...]},
# one JSON list per line on stdout.
import sys, json, io, tokenize, token, warnings
warnings.simplefilter('ignore')


import re
_SPLIT = re.compile('(\r\n|\r|\n)')


def universal_readline(text):
    # source files are read with universal newlines: \n, \r\n and \r end a line
    parts = _SPLIT.split(text)
    lines = [parts[i] + parts[i + 1] for i in range(0, len(parts) - 1, 2)]
    if parts[-1]:
        lines.append(parts[-1])
    it = iter(lines)
    return lambda: next(it, '')


def do_tokenize(text):
    try:
        toks = list(tokenize.generate_tokens(universal_readline(text)))
    except Exception as e:
        return {'err': type(e).__name__}
    out = []
    for t in toks:
        name = token.tok_name[t.type]
        if name == 'ERRORTOKEN':
            return {'err': 'ERRORTOKEN'}
        out.append([name, t.string, t.start[0], t.start[1]])
    return {'toks': out}


def do_compile(text):
    try:
        compile(text, '<x>', 'exec', dont_inherit=True)
        return 1
    except (SyntaxError, ValueError, OverflowError, MemoryError, RecursionError):
        return 0


def main():
    for line in sys.stdin:
        req = json.loads(line)
        fn = do_tokenize if req['mode'] == 'tokenize' else do_compile
        sys.stdout.write(json.dumps([fn(t) for t in req['texts']]))
        sys.stdout.write('\n')
        sys.stdout.flush()


main()
