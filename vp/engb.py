"""Engine E-B: line-level explicit-state breadth-first search over the *real* tokenizer + parser.

A state is the configuration of tokenize_lines (read from its generator frame) and of the Parser
(stack of (rule, canonical DFA state number, ...)) at a line boundary.  A transition appends one
line from a pool.  Histories that reach an already seen state are executed (and judged by the
property's text oracle) but not expanded.  See DESIGN.md section 3, E-B for the merge argument."""
import importlib

from . import core, env

POOL = ['a\n', 'if a:\n', '  b\n', '    c\n', 'else:\n', '(\n', ')\n', 'def f(\n', '"""\n', '\\\n', 'x = [\n',
        ' \n', 'f"{\n', '@d\n', ' $\n', 'class C: pass\n', 'try:\n', 'return\n', '  (a,\n', '}\n',
        '\f\n', '\tz\n', '# c\n', 'a = 1; \n', 'except:\n', "  '\\\n", '  for i in j:\n',
        '      async def g():\n', 'lambda\n', "  x = f'''{\n",
        'elif a:\n', '  pass\n', 'import a\n', ']\n', '    """\n', 'with a as b: c\n']
FINALS = ['', 'b', '  (', "'", '    if a:', '    c', '    ...']

_state = {}


def _init(version):
    st = _state.get(version)
    if st is not None:
        return st
    parso = env.setup()
    g = parso.load_grammar(version=version)
    pg = g._pgen_grammar
    dfa_id = {}
    for name, dfas in pg.nonterminal_to_dfas.items():
        # canonical numbering: BFS from the start state following arcs in sorted label order
        order = [dfas[0]]
        seen = {id(dfas[0])}
        for d in order:
            for lab in sorted(d.arcs):
                nd = d.arcs[lab]
                if id(nd) not in seen:
                    seen.add(id(nd))
                    order.append(nd)
        for i, d in enumerate(order):
            dfa_id[id(d)] = (name, i)
    st = _state[version] = (g, pg, dfa_id)
    return st


def run_state(version, lines, final=''):
    """Parse lines+final with a real Parser fed by a real tokenize_lines over a lazy line iterator;
    return (module, canonical state at the boundary before `final`)."""
    from parso.python.parser import Parser
    from parso.python.tokenize import tokenize_lines
    g, pg, dfa_id = _init(version)
    snap = {}
    p = Parser(pg, error_recovery=True)

    def it():
        for l in lines:
            yield l
        fl = tokgen.gi_frame.f_locals
        tk = (tuple(fl['indents']), fl['paren_level'],
              tuple((n.quote, n.parentheses_count, n.format_spec_count, bool(n.previous_lines))
                    for n in fl['fstring_stack']),
              bool(fl['contstr']), (fl['endprog'].pattern if fl['contstr'] else None),
              fl['new_line'], bool(fl['additional_prefix']))
        st = []
        for sn in p.stack:
            ns = sn.nodes
            last_nl = bool(ns) and ns[-1].get_last_leaf().value[-1:] in ('\n', '\r')
            st.append((dfa_id[id(sn.dfa)], min(len(ns), 2), last_nl))
        snap['s'] = (tk, tuple(st), tuple(p._omit_dedent_list), p._indent_counter)
        yield final

    tokgen = tokenize_lines(it(), version_info=g.version_info)
    m = p.parse(tokgen)
    return m, snap['s']


def expand(modname, version, h, finals, pool_lines):
    """All one-line extensions of history h: their states, and the oracle on every extension x final."""
    env.setup()
    from . import sigma
    mod = importlib.import_module(modname)
    fam = {'name': 'E-B', 'versions': [version], 'kind': 'engb'}
    ctx = sigma._ctx(modname, fam)
    acc = sigma.make_acc(mod)
    out = []
    for l in pool_lines:
        h2 = h + (l,)
        try:
            m, s = run_state(version, h2)
        except Exception as e:
            # the parse of this history raises: let the property's own oracle judge the text (so that the
            # witness re-executes with the same signature); a failure only the lazy-iterator harness sees
            # is reported under its own name
            before = sum(v[0] for v in acc.fails.values())
            mod.check_text(ctx, fam, ''.join(h2), acc)
            if sum(v[0] for v in acc.fails.values()) == before:
                acc.fail(('engb-parse-raises',) + core.exc_sig(e), {'text': ''.join(h2), 'version': version},
                         repr(e))
            continue
        out.append((h2, s))
        for fin in finals:
            mod.check_text(ctx, fam, ''.join(h2) + fin, acc)
    return out, acc.strip()


def search(R, modname, version, depth, finals=None, pool_lines=None, merge=True, name=None):
    finals = FINALS if finals is None else finals
    pool_lines = POOL if pool_lines is None else pool_lines
    seen = set()
    frontier = [()]
    trans = 0
    acc = core.Acc()
    levels = []
    sample = None
    for d in range(1, depth + 1):
        args = [(modname, version, h, finals, pool_lines) for h in frontier]
        cand = {}
        unmerged = []
        for out, a in core.pmap('vp.engb', 'expand', args, chunksize=4):
            acc.merge(a)
            for h2, s in out:
                trans += 1
                if not merge:
                    seen.add(s)
                    unmerged.append(h2)
                elif s not in seen:
                    # several histories of this level may reach the same new state: the smallest history
                    # represents it, so the search does not depend on the order results arrive in
                    if s not in cand or h2 < cand[s]:
                        cand[s] = h2
        seen.update(cand)
        nxt = sorted(unmerged) if not merge else sorted(cand.values())
        frontier = nxt
        levels.append({'depth': d, 'states': len(seen), 'frontier': len(frontier), 'transitions': trans})
        if frontier:
            sample = frontier[len(frontier) // 2]
        if not frontier:
            break
    if sample is not None:
        acc.samples.append({'family': 'E-B', 'version': version, 'history': list(sample)})
    info = dict(version=version, depth=depth, states=len(seen), transitions=trans,
                frontier_exhausted=not frontier, merged=merge, pool=pool_lines, finals=finals, levels=levels)
    R.section(name or 'E-B/%s/depth%d%s' % (version, depth, '' if merge else '/unmerged'), acc, **info)
    return info, seen


def run_plan(R, modname, tier, seed, quick=(('3.8', 5), ('3.6', 4), ('3.14', 4)),
             thorough=(('3.8', 7), ('3.6', 6), ('3.12', 6), ('3.14', 6))):
    """The E-B part shared by the tree properties; fills the model-checking style counters."""
    plan = quick if tier == 'quick' else thorough
    tot_s = tot_t = 0
    for version, depth in plan:
        info, _ = search(R, modname, version, depth)
        tot_s += info['states']
        tot_t += info['transitions']
    R.coverage['states'] = R.coverage.get('states', 0) + tot_s
    R.coverage['transitions'] = R.coverage.get('transitions', 0) + tot_t
    R.coverage['traces_validated_against_impl'] = R.coverage['transitions']
    R.coverage['engb_note'] = ('states/transitions are those of the line-level search (E-B); every transition '
                               'is an execution of the real tokenizer+parser')
