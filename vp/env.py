"""Process environment: which parso is under test, determinism switches."""
import os
import sys

REPO = os.path.realpath(os.environ.get('VP_REPO', '/repo'))
VERIF = os.path.dirname(os.path.dirname(os.path.abspath(__file__)))
VERSIONS = ['3.6', '3.7', '3.8', '3.9', '3.10', '3.11', '3.12', '3.13', '3.14']
NPROC = int(os.environ.get('VP_NPROC', '0')) or min(16, os.cpu_count() or 1)
PYENV = {'3.6': '3.6.15', '3.7': '3.7.16', '3.8': '3.8.18', '3.9': '3.9.18', '3.10': '3.10.13',
         '3.11': '3.11.7', '3.12': '3.12.1', '3.13': '3.13.0'}


def reexec_deterministic():
    """Re-exec once so that hash randomisation is off and no bytecode is written into /repo."""
    if os.environ.get('PYTHONHASHSEED') != '0' or os.environ.get('PYTHONDONTWRITEBYTECODE') != '1':
        env = dict(os.environ, PYTHONHASHSEED='0', PYTHONDONTWRITEBYTECODE='1')
        os.execve(sys.executable, [sys.executable, '-m', 'vp.check'] + sys.argv[1:], env)


def setup():
    sys.dont_write_bytecode = True
    if not sys.path or sys.path[0] != REPO:
        sys.path.insert(0, REPO)
    for k in [k for k in sys.modules if k == 'parso' or k.startswith('parso.')]:
        mod = sys.modules[k]
        f = getattr(mod, '__file__', None)
        if f and not os.path.realpath(f).startswith(REPO + os.sep):
            del sys.modules[k]
    import parso
    f = os.path.realpath(parso.__file__)
    if not f.startswith(REPO + os.sep):
        raise SystemExit('internal: parso imported from %s, not from %s' % (f, REPO))
    return parso


def ref_python(version):
    """Path of the reference CPython for a parso version ('3.14' is judged by 3.13)."""
    v = '3.13' if version == '3.14' else version
    p = '/root/.pyenv/versions/%s/bin/python' % PYENV[v]
    return p if os.path.exists(p) else None


def scratch_root():
    import tempfile
    base = '/dev/shm' if os.path.isdir('/dev/shm') and os.access('/dev/shm', os.W_OK) else None
    return tempfile.mkdtemp(prefix='vp-', dir=base)
