"""Deep structural fingerprint of everything reachable from the parso.* module dictionaries."""
import enum
import re
import sys
import types

ATOM = (int, float, str, bytes, bool, type(None), complex)
FUNCS = (types.FunctionType, types.BuiltinFunctionType, types.MethodType, staticmethod, classmethod, property,
         types.MethodDescriptorType, types.WrapperDescriptorType, types.GetSetDescriptorType,
         types.MemberDescriptorType)


def roots():
    for name, mod in sorted(sys.modules.items()):
        if (name == 'parso' or name.startswith('parso.')) and mod is not None:
            yield name, mod


def fingerprint(exclude=()):
    """(hash, number of objects, per-root hashes).  Sets are order-independent, compiled regexes by
    pattern+flags, functions by qualified name and defaults, foreign objects by type only."""
    seen = {}

    def visit(o):
        if isinstance(o, ATOM):
            return ('a', type(o).__name__, o if not isinstance(o, str) or len(o) < 200 else hash(o))
        i = id(o)
        if i in seen:
            return ('ref', seen[i])
        seen[i] = len(seen)
        if isinstance(o, types.ModuleType):
            if not (o.__name__ == 'parso' or o.__name__.startswith('parso.')):
                return ('extmod', o.__name__)
            return ('mod', o.__name__, tuple((k, visit(v)) for k, v in sorted(vars(o).items())
                                             if k not in ('__builtins__', '__cached__', '__loader__', '__spec__')
                                             and (o.__name__, k) not in exclude))
        if isinstance(o, FUNCS):
            d = getattr(o, '__defaults__', None)
            return ('fn', getattr(o, '__qualname__', repr(type(o))), visit(d) if d else None,
                    visit(getattr(o, '__kwdefaults__', None)))
        if isinstance(o, type):
            if not getattr(o, '__module__', '').startswith('parso'):
                return ('exttype', o.__module__, o.__qualname__)
            return ('cls', o.__qualname__, tuple((k, visit(v)) for k, v in sorted(vars(o).items(), key=lambda kv: kv[0])
                                                 if k not in ('__dict__', '__weakref__', '__doc__')))
        if isinstance(o, re.Pattern):
            return ('re', o.pattern, o.flags)
        if isinstance(o, dict):
            return ('dict', tuple((visit(k), visit(v)) for k, v in o.items()))
        if isinstance(o, (list, tuple)):
            return (type(o).__name__, tuple(visit(x) for x in o))
        if isinstance(o, (set, frozenset)):
            return ('set', tuple(sorted((visit(x) for x in o), key=repr)))
        if isinstance(o, enum.Enum):
            return ('enum', type(o).__qualname__, o.name)
        mod = getattr(type(o), '__module__', '')
        if mod.startswith('parso'):
            st = []
            if hasattr(o, '__dict__'):
                st += [(k, visit(v)) for k, v in sorted(vars(o).items())]
            for c in type(o).__mro__:
                for sl in getattr(c, '__slots__', ()):
                    if isinstance(sl, str) and hasattr(o, sl):
                        st.append((sl, visit(getattr(o, sl))))
            return ('obj', type(o).__qualname__, tuple(st))
        return ('ext', type(o).__module__, type(o).__qualname__)
    per = []
    for n, m in roots():
        per.append((n, hash(visit(m))))
    return hash(tuple(per)), len(seen), per
