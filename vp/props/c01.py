"""C01 lossless round-trip (tree and every subtree reproduce the source text exactly)."""
from .. import core, engb, env, sigma
from ..treeutil import leaves, nodes

PROP = 'C01'
MOD = 'vp.props.c01'


def setup(fam):
    import parso
    return {v: parso.load_grammar(version=v) for v in fam['versions']}


def check_text(ctx, fam, text, acc):
    for v, g in ctx.items():
        acc.evaluations += 1
        case = {'text': text, 'version': v}
        try:
            m = g.parse(text)
        except Exception as e:
            acc.fail(('parse-raises',) + core.exc_sig(e), case, repr(e))
            continue
        _oracle(g, m, text, case, acc)


def _oracle(g, m, text, case, acc):
    try:
        code = m.get_code()
    except Exception as e:
        acc.fail(('get_code-raises',) + core.exc_sig(e), case, repr(e))
        return
    if code != text:
        acc.fail(('module-code-differs',), case, '%r != %r' % (code, text))
    # leaves tile the text; every leaf gets an offset interval (independent of positions)
    span = {}
    off = 0
    parts = []
    ls = list(leaves(m))
    for l in ls:
        if not isinstance(l.prefix, str) or not isinstance(l.value, str):
            acc.fail(('leaf-nonstring',), case)
            return
        a = off
        off += len(l.prefix) + len(l.value)
        span[id(l)] = (a, a + len(l.prefix), off)
        parts.append(l.prefix)
        parts.append(l.value)
    if ''.join(parts) != text:
        acc.fail(('leaves-do-not-tile',), case, repr(''.join(parts)))
        return
    nontriv = len(ls) > 2
    for n in nodes(m):
        try:
            ch = n.children
        except AttributeError:
            a, b, c = span[id(n)]
            first = last = n
        else:
            if n.type == 'error_node':
                nontriv = True
            # first/last leaf found by own descent
            first = n
            while hasattr(first, 'children'):
                first = first.children[0]
            last = n
            while hasattr(last, 'children'):
                last = last.children[-1]
            a, b = span[id(first)][0], span[id(first)][1]
            c = span[id(last)][2]
        try:
            w = n.get_code()
            wo = n.get_code(include_prefix=False)
        except Exception as e:
            acc.fail(('get_code-raises',) + core.exc_sig(e), case, repr(e))
            return
        if w != text[a:c]:
            acc.fail(('subtree-code-differs', n.type), case, '%r != %r' % (w, text[a:c]))
            return
        if wo != text[b:c]:
            acc.fail(('subtree-code-noprefix-differs', n.type), case, '%r != %r' % (wo, text[b:c]))
            return
    if nontriv:
        acc.nontrivial += 1
    # bytes input gives exactly the decoded text (decoding proper is C15: skip texts with a declaration)
    if 'coding' not in text:
        try:
            b = text.encode('utf-8')
        except UnicodeEncodeError:
            return
        try:
            mb = g.parse(b)
            cb = mb.get_code()
        except Exception as e:
            acc.fail(('bytes-raises',) + core.exc_sig(e), case, repr(e))
            return
        if cb != text:
            acc.fail(('bytes-code-differs',), case, '%r != %r' % (cb, text))


def recheck(case):
    return sigma.recheck_text(MOD, case)


def families(tier, seed):
    V = env.VERSIONS
    if tier == 'quick':
        fams = [sigma.fam(a, 3, V) for a in ('ws', 'blocks', 'strs', 'ops', 'stm', 'stm2', 'chars')]
        fams.append(sigma.fam('contstr', 4, V))
        fams += [sigma.fam(a, 4, ['3.6', '3.8', '3.14'], name='%s=4' % a, n_lo=4)
                 for a in ('ws', 'blocks', 'strs', 'ops', 'stm', 'chars')]
        k = ('ws', 'blocks', 'strs', 'stm2')[seed % 4]
        fams.append(sigma.seed_slice(k, 5 if k != 'stm2' else 4, ['3.8', '3.14'], seed, 64))
    else:
        fams = [sigma.fam(a, 4, V) for a in ('ws', 'blocks', 'strs', 'ops', 'stm', 'stm2', 'chars')]
        fams.append(sigma.fam('contstr', 5, V))
        fams += [sigma.fam(a, 5, ['3.6', '3.12'], name='%s=5' % a, n_lo=5) for a in ('ws', 'blocks', 'strs')]
        fams.append(sigma.fam('chars', 5, ['3.8'], name='chars=5', n_lo=5))
    if tier == 'quick':
        fams += [sigma.g3('3.8', 4), sigma.g3('3.13', 5, slice_mod=8, slice_eq=seed % 8)]
    else:
        fams += [sigma.g3(v, 7) for v in ('3.6', '3.8', '3.12', '3.14')]
    return fams


def run(tier, seed):
    R = core.Report(PROP, tier, seed, 'exploration')
    R.rule = ('every distinct text over each named lexeme alphabet with <= n symbols (shortlex, '
              'de-duplicated by text) x listed versions x {str, bytes}; non-trivial = (text, version) '
              'pairs whose tree has more than two leaves or contains an error node')
    R.assumptions = ['texts are limited to the listed alphabets and lengths', 'parso imported from ' + env.REPO]
    sigma.sweep(R, MOD, families(tier, seed))
    engb.run_plan(R, MOD, tier, seed)
    return R.finish(recheck)
