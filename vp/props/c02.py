"""C02 error recovery is total: any text (nesting <= 100) parses to a well-formed module."""
from .. import core, engb, env, sigma
from ..treeutil import leaves

PROP = 'C02'
MOD = 'vp.props.c02'


def setup(fam):
    import parso
    return {v: parso.load_grammar(version=v) for v in fam['versions']}


def check_text(ctx, fam, text, acc):
    for v, g in ctx.items():
        acc.evaluations += 1
        case = {'text': text, 'version': v}
        try:
            m = g.parse(text)
        except BaseException as e:
            if isinstance(e, (KeyboardInterrupt, SystemExit)):
                raise
            acc.fail(('parse-raises',) + core.exc_sig(e), case, repr(e))
            continue
        r = wellformed(m)
        if r:
            acc.fail(r, case)
        if len(m.children) > 2 or len(text) > 2:
            acc.nontrivial += 1


def wellformed(m):
    from parso.tree import BaseNode, Leaf
    if m.type != 'file_input':
        return ('root-not-file_input', m.type)
    if m.parent is not None:
        return ('root-has-parent',)
    if not m.children or m.children[-1].type != 'endmarker' or hasattr(m.children[-1], 'children'):
        return ('last-child-not-endmarker',)
    stack = [m]
    while stack:
        n = stack.pop()
        if isinstance(n, BaseNode):
            ch = n.children
            if not isinstance(ch, list) or len(ch) < 1:
                return ('interior-node-without-children', n.type)
            for c in ch:
                if not isinstance(c, (BaseNode, Leaf)):
                    return ('child-not-node-or-leaf', type(c).__name__)
            stack.extend(ch)
        elif isinstance(n, Leaf):
            if not isinstance(n.value, str) or not isinstance(n.prefix, str):
                return ('leaf-value-or-prefix-not-str', n.type)
            if not isinstance(n.type, str):
                return ('leaf-type-not-str',)
        else:
            return ('not-node-or-leaf', type(n).__name__)
    # a tree that is built but cannot be traversed is not well-formed either
    try:
        m.get_code()
        m.dump()
        k = 0
        l = m.get_first_leaf()
        while l is not None:
            l = l.get_next_leaf()
            k += 1
        if k != sum(1 for _ in leaves(m)):
            return ('leaf-walk-count',)
    except BaseException as e:
        if isinstance(e, (KeyboardInterrupt, SystemExit)):
            raise
        return ('traversal-raises',) + core.exc_sig(e)
    return None


# ---- nesting families up to the property's bound ------------------------------------------------
def nesting_texts(k):
    """(shape, text) for nesting depth k; closed, unclosed and wrongly closed variants."""
    out = []
    for o, c, w in (('(', ')', ']'), ('[', ']', '}'), ('{', '}', ')')):
        out.append(('br' + o + 'closed', o * k + 'a' + c * k + '\n'))
        out.append(('br' + o + 'open', o * k + 'a\n'))
        out.append(('br' + o + 'wrong', o * k + 'a' + c * (k - 1) + w + '\n'))
    out.append(('dictnest-closed', '{a:' * k + 'a' + '}' * k + '\n'))
    out.append(('dictnest-open', '{a:' * k + 'a\n'))
    out.append(('dictnest-wrong', '{a:' * k + 'a' + '}' * (k - 1) + ')\n'))
    out.append(('call-closed', 'f(' * k + ')' * k + '\n'))
    out.append(('call-open', 'f(' * k + '\n'))
    out.append(('call-wrong', 'f(' * k + ')' * (k - 1) + ']\n'))
    out.append(('not', 'not ' * k + 'a\n'))
    out.append(('not-open', 'not ' * k + '\n'))
    out.append(('neg', '-' * k + 'a\n'))
    out.append(('neg-open', '-' * k))
    out.append(('lambda', 'lambda: ' * k + 'a\n'))
    out.append(('lambda-open', 'lambda: ' * k))
    out.append(('ternary', 'a if b else ' * k + 'c\n'))
    out.append(('ternary-open', 'a if b else ' * k + '\n'))
    out.append(('power', 'a**' * k + 'a\n'))
    out.append(('power-open', 'a**' * k + '\n'))
    out.append(('trailer', 'a' + '.b' * k + '\n'))
    out.append(('trailer-open', 'a' + '.b' * k + '.\n'))
    out.append(('subscr', 'a' + '[b' * k + ']' * k + '\n'))
    out.append(('await', 'await ' * k + 'a\n'))
    ifs = ''.join(' ' * i + 'if a:\n' for i in range(k))
    out.append(('if-blocks', ifs + ' ' * k + 'pass\n'))
    out.append(('if-blocks-open', ifs))
    out.append(('if-blocks-dedent-error', ifs + ' ' * k + 'pass\n' + ''.join(' ' * (k - i) + '$\n' for i in range(1, k, 2))))
    defs = ''.join(' ' * i + 'def f():\n' for i in range(k))
    out.append(('def-blocks', defs + ' ' * k + 'pass\n'))
    out.append(('def-blocks-open', defs + ' ' * k + '(\n'))
    cls = ''.join(' ' * i + ('class C:\n' if i % 2 else 'async def f():\n') for i in range(k))
    out.append(('mixed-blocks', cls + ' ' * k + 'return\n'))
    out.append(('indents-no-opener', ''.join(' ' * i + 'a\n' for i in range(k))))
    out.append(('indents-no-opener-back', ''.join(' ' * i + 'a\n' for i in range(k)) + ''.join(' ' * i + 'b\n' for i in range(k - 1, -1, -2))))
    # alternating nested f-strings: f'{f"{f'{ ... }'}"}'
    s = 'a'
    for i in range(k):
        q = "'" if i % 2 else '"'
        s = 'f' + q + '{' + s + '}' + q
    out.append(('fstring-nest', s + '\n'))
    s = ''
    for i in range(k):
        q = "'" if i % 2 else '"'
        s += 'f' + q + '{'
    out.append(('fstring-nest-open', s + '\n'))
    out.append(('fstring-spec-nest', 'f"{a:' + '{a:' * (k - 1) + '}' * k + '"\n'))
    out.append(('comp', '[a ' + 'for a in a ' * k + ']\n'))
    out.append(('comp-if', '[a for a in a ' + 'if a ' * k + ']\n'))
    out.append(('decorators', '@a\n' * k + 'def f(): pass\n'))
    out.append(('decorators-open', '@a\n' * k))
    out.append(('semicolons', 'a;' * k + '\n'))
    out.append(('elifs', 'if a: pass\n' + 'elif a: pass\n' * k))
    out.append(('parens-lines', '(\n' * k + ')\n' * k))
    out.append(('backslashes', 'a = \\\n' * k + 'a\n'))
    return out


def nesting_shard(versions, ks):
    env.setup()
    import parso
    acc = core.Acc()
    fnd = core.Findings(PROP)
    acc.classify = lambda sig, case, extra: fnd.match(sig, case, None, extra)
    for k in ks:
        for shape, text in nesting_texts(k):
            for v in versions:
                g = parso.load_grammar(version=v)
                acc.evaluations += 1
                acc.nontrivial += 1
                case = {'text': text, 'version': v, 'shape': shape, 'k': k}
                try:
                    m = g.parse(text)
                except BaseException as e:
                    if isinstance(e, (KeyboardInterrupt, SystemExit)):
                        raise
                    acc.fail(('parse-raises',) + core.exc_sig(e), case, repr(e))
                    continue
                r = wellformed(m)
                if r:
                    acc.fail(r, case)
    if 100 in ks:
        acc.samples.append({'family': 'nesting', 'shape': 'fstring-nest', 'k': 3,
                            'text': [t for s, t in nesting_texts(3) if s == 'fstring-nest'][0]})
    return acc.strip()


def recheck(case):
    return sigma.recheck_text(MOD, case)


def families(tier, seed):
    V = env.VERSIONS
    if tier == 'quick':
        fams = [sigma.fam(a, 3, V) for a in ('ws', 'blocks', 'strs', 'ops', 'stm', 'stm2', 'chars', 'indent')]
        fams.append(sigma.fam('contstr', 4, V))
        fams += [sigma.fam(a, 4, ['3.6', '3.8', '3.14'], name='%s=4' % a, n_lo=4)
                 for a in ('ws', 'blocks', 'strs', 'ops', 'stm', 'chars', 'indent')]
        k = ('ws', 'blocks', 'strs', 'stm2')[seed % 4]
        fams.append(sigma.seed_slice(k, 5 if k != 'stm2' else 4, ['3.8', '3.14'], seed, 64))
    else:
        fams = [sigma.fam(a, 4, V) for a in ('ws', 'blocks', 'strs', 'ops', 'stm', 'stm2', 'chars', 'indent')]
        fams.append(sigma.fam('contstr', 5, V))
        fams += [sigma.fam(a, 5, ['3.6', '3.12'], name='%s=5' % a, n_lo=5) for a in ('ws', 'blocks', 'strs', 'indent')]
        fams.append(sigma.fam('chars', 5, ['3.8'], name='chars=5', n_lo=5))
    if tier == 'quick':
        fams += [sigma.g3('3.8', 4), sigma.g3('3.13', 5, slice_mod=8, slice_eq=seed % 8)]
    else:
        fams += [sigma.g3(v, 7) for v in ('3.6', '3.8', '3.12', '3.14')]
    return fams


def run(tier, seed):
    R = core.Report(PROP, tier, seed, 'exploration')
    R.rule = ('every distinct text over each named lexeme alphabet with <= n symbols x versions; every line '
              'history (E-B); 46 nesting shapes x every depth 1..100 x 9 versions; non-trivial = texts of '
              'more than two characters or trees with more than two top-level children')
    R.assumptions = ['texts are limited to the listed alphabets, lengths and nesting shapes',
                     'default interpreter recursion limit (1000)']
    sigma.sweep(R, MOD, families(tier, seed))
    ks = list(range(1, 101))
    step = 4 if tier == 'quick' else 1
    acc = core.Acc()
    vs = env.VERSIONS
    if tier == 'quick':
        # every depth on two versions, every 4th depth (and 97..100) on all nine
        tasks = [(['3.8', '3.14'], [k]) for k in ks] + \
                [([v for v in vs if v not in ('3.8', '3.14')], [k]) for k in ks if k % step == 0 or k > 96]
    else:
        tasks = [(vs, [k]) for k in ks]
    for a in core.pmap(MOD, 'nesting_shard', tasks):
        acc.merge(a)
    R.section('nesting<=100', acc, shapes=[s for s, _ in nesting_texts(2)])
    engb.run_plan(R, MOD, tier, seed)
    return R.finish(recheck)
