"""C03 positions are true: start/end of every leaf and node locate its text."""
from .. import core, engb, env, sigma
from ..treeutil import leaves, nodes, ref_positions, is_zero_width, ref_split_lines

PROP = 'C03'
MOD = 'vp.props.c03'


def setup(fam):
    import parso
    return {v: parso.load_grammar(version=v) for v in fam['versions']}


def check_text(ctx, fam, text, acc):
    for v, g in ctx.items():
        acc.evaluations += 1
        case = {'text': text, 'version': v}
        try:
            m = g.parse(text)
            oracle(m, text, case, acc)
        except Exception as e:
            acc.fail(('raises',) + core.exc_sig(e), case, repr(e))


def oracle(m, text, case, acc):
    ref, final, problem = ref_positions(m, text)
    if problem:
        acc.fail(('zero-width-leaf-without-following-text-leaf',), case)
    ls = list(leaves(m))
    multi = False
    prev_end = (1, 0)
    last_start = (1, 0)
    for l in ls:
        p_start, s, e = ref[id(l)]
        if l.start_pos != s:
            kind = 'zero-width-' + str(l.token_type) if p_start is None else l.type
            acc.fail(('start_pos', kind), case, 'leaf %r: start_pos %r, true %r' % (l, l.start_pos, s))
            return
        if l.end_pos != e:
            kind = 'zero-width-' + str(l.token_type) if p_start is None else l.type
            acc.fail(('end_pos', kind), case, 'leaf %r: end_pos %r, true %r' % (l, l.end_pos, e))
            return
        if p_start is not None:
            got = l.get_start_pos_of_prefix()
            if got != p_start or got != prev_end:
                acc.fail(('start_pos_of_prefix', l.type), case,
                         'leaf %r: prefix start %r, true %r' % (l, got, p_start))
                return
            prev_end = e
            if e[0] != s[0] or p_start[0] != s[0]:
                multi = True
        # ordered, never overlapping
        if not (last_start <= l.start_pos <= l.end_pos):
            acc.fail(('leaves-not-ordered',), case, repr(l))
            return
        last_start = l.start_pos
    for n in nodes(m):
        try:
            ch = n.children
        except AttributeError:
            continue
        first = n
        while hasattr(first, 'children'):
            first = first.children[0]
        last = n
        while hasattr(last, 'children'):
            last = last.children[-1]
        if n.start_pos != ref[id(first)][1] or n.end_pos != ref[id(last)][2]:
            acc.fail(('node-pos', n.type), case, repr(n))
            return
    nbreaks = len(ref_split_lines(text))
    if m.end_pos != final:
        acc.fail(('module-end',), case, '%r != %r' % (m.end_pos, final))
    elif m.end_pos[0] != nbreaks:
        acc.fail(('module-line-count',), case, '%r lines vs %r' % (m.end_pos[0], nbreaks))
    if multi or any(is_zero_width(l) for l in ls):
        acc.nontrivial += 1


def recheck(case):
    return sigma.recheck_text(MOD, case)


def families(tier, seed):
    V = env.VERSIONS
    if tier == 'quick':
        fams = [sigma.fam(a, 3, V) for a in ('ws', 'blocks', 'strs', 'ops', 'stm', 'chars', 'indent')]
        fams.append(sigma.fam('contstr', 4, V))
        fams += [sigma.fam(a, 4, ['3.6', '3.8', '3.14'], name='%s=4' % a, n_lo=4)
                 for a in ('ws', 'blocks', 'strs', 'indent', 'chars')]
        k = ('ws', 'blocks', 'strs', 'indent')[seed % 4]
        fams.append(sigma.seed_slice(k, 5, ['3.8', '3.14'], seed, 64))
    else:
        fams = [sigma.fam(a, 4, V) for a in ('ws', 'blocks', 'strs', 'ops', 'stm', 'stm2', 'chars', 'indent')]
        fams.append(sigma.fam('contstr', 5, V))
        fams += [sigma.fam(a, 5, ['3.6', '3.12'], name='%s=5' % a, n_lo=5) for a in ('ws', 'blocks', 'strs', 'indent')]
        fams.append(sigma.fam('chars', 5, ['3.8'], name='chars=5', n_lo=5))
    if tier == 'quick':
        fams += [sigma.g3('3.8', 4, slice_mod=2, slice_eq=seed % 2), sigma.g3('3.13', 4, slice_mod=8, slice_eq=seed % 8)]
    else:
        fams += [sigma.g3(v, 6) for v in ('3.8', '3.13')]
    return fams


def run(tier, seed):
    R = core.Report(PROP, tier, seed, 'exploration')
    R.rule = ('every distinct text over each named lexeme alphabet with <= n symbols x versions, and every '
              'line history of E-B; oracle = independent (line, col) walker; non-trivial = (text, version) '
              'pairs with a multi-line leaf or prefix, or a zero-width indentation error leaf')
    R.assumptions = ['texts are limited to the listed alphabets/lengths/line pools',
                     'zero-width INDENT/DEDENT error leaves are judged by the placement rule (DESIGN 4/C03)']
    sigma.sweep(R, MOD, families(tier, seed))
    engb.run_plan(R, MOD, tier, seed)
    return R.finish(recheck)
