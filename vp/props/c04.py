"""C04 incremental re-parse (diff_cache) equals a fresh parse after any edit history.

Engine E-H: a state is the cached (module, lines) under one path; a transition is
grammar.parse(T', diff_cache=True, path=p).  Every transition must land in the canonical state of a
fresh parse of T' - so the reachable states are {fresh(T)} and all histories over a text set are
decided by all ordered pairs; a transition that lands elsewhere is a violation (see DESIGN 4/C04)."""
import itertools

from .. import core, env
from ..treeutil import structure, parents_ok, leaves

PROP = 'C04'
MOD = 'vp.props.c04'
PATH = '/vp-nonexistent/c04.py'

POOLS = {
    'A': ['def f():\n', '    a = 1\n', '    return (\n', 'class C:\n', '  x\n', 'if a:\n', 'else:\n', '@dec\n',
          ')\n', 'b'],
    'B': ['"""\n', 'a = (\n', '    x,\n', ')\n', '\n', '# c\n', '\f\n', 'async def g():\n', '        y\n',
          'for i in j: pass\n', ' \\\n'],
    'C': ['\ufeffa\n', 'try:\n', '    pass\n', 'except:\n', 'finally:\n', "s = '''\n", 'x = [1,\n', ']\n', '\tz\n',
          'lambda\n', 'while 1:\n', '  else'],
    'E': ['@d\n', 'async def f():\n', '    a\n', '    b\n', 'x\n', 'class C:\n', '    @e\n', '    async def m(s):\n',
          '        c\n', 'def g():\n'],
    'D': ['@d\n', 'def g(a,\n', '      b):\n', '    if a: b\n', '    elif c:\n', "        f'{a\n", '    x = 1  # c\n',
          'class D(E):\n', '    """d"""\n', 'return\n', '\r\n', "  '"],
}

BASES = [
    'import os\nclass A(object):\n    """doc"""\n    x = 1\n\n    @property\n    def f(self, a, b=(1,\n                      2)):\n'
    '        if a:\n            return b\n        else:\n            for i in b:\n                yield i\n        # comment\n\n'
    '    async def g(self):\n        await x\ndef h():\n    return [\n        1, 2,\n    ]\n',
    'def outer():\n    def inner():\n        try:\n            pass\n        except E as e:\n            raise\n        finally:\n'
    '            x = f"{a!r:>{w}}"\n    s = \'\'\'multi\nline\n\'\'\'\n    return inner\nif x:\n    y = 1\nelif z:\n    y = 2\nelse:\n'
    '    y = \\\n        3\nwhile True: break\n',
    '\ufeff# bom\n@dec\n@dec2(1)\nclass C:\n\tdef t(self):\n\t\tpass\nx = (lambda: (\n    1))\nwith a as b, c as d:\n    pass\nlambda\n'
    'for i in j:\n    continue\nelse:\n    pass',
    'class X:\n    def a(self):\n        pass\n    def b(self):\n        pass\n\n\nclass Y(X):\n    def c(self):\n        return 1\n',
    'def f(\n    a,\n    b,\n):\n    x = {\n        1: 2,\n    }\n    return x\n\n\nf(\n  1,\n  2)\n',
    'if a:\n    if b:\n        if c:\n            d\n        e\n    f\ng\n',
    '\f\ndef f():\n    pass\n\f\nclass C: pass\n\r\nx = 1\r\ny = 2\r\n',
    'try:\n    a\nexcept B:\n    c\nelse:\n    d\nfinally:\n    e\nasync def f():\n    async with a:\n        async for b in c:\n            pass\n',
    'x = """\ndef f():\n    pass\n"""\ndef g():\n    """doc\n    more\n    """\n    return x\n',
    '@a\n@b\ndef f(): pass\n@c\nclass D: pass\n@e\nasync def g(): pass\n',
    '@dec\nasync def f():\n    a\nx\n',
    'class C:\n    def f(self):\n        a = 1\n        b = 2\n        c = 3\n    x = 1\n        z = 0\n    y = 2\n',
    'def f():\n    if a:\n        b = (1,\n             2)\n      c\n    else:\n        d\n   e\nclass G:\n  h = 1\n      i = 2\n',
    'class K:\n    @dec\n    async def m(self):\n        a\n    y = 1\n@d2\nasync def g():\n    async with a:\n        pass\n@d3\nclass L:\n    z\n',
]
FRAGMENTS = ['(', ')', '"""', ':', '#', ' ', '\n', "f'{"]
EDIT_LINES = ['def n():\n', '    q = 1\n', 'class N:\n', '(\n', ')\n', '"""\n', '\n', '  z\n', '@dec\n', 'else:\n',
              '        return\n', 'x']


EXTRA_POOLS = {
    # lines whose prefixes carry style issues (comments, trailing blanks, blank lines): used by C20's provenance family
    'P': ['x = 1  #c\n', 'y = 2 \n', 'def f():\n', '    z\n', '\n', '# c\n', 'a=1\n', '\tw = 3\n'],
}


def pool_texts(pool, k):
    lines = POOLS.get(pool) or EXTRA_POOLS[pool]
    texts = []
    for n in range(0, k + 1):
        for tup in itertools.product(lines, repeat=n):
            if any(not l.endswith(('\n', '\r')) for l in tup[:-1]):
                continue     # a line without line break can only be the last one
            texts.append(''.join(tup))
    return list(dict.fromkeys(texts))


def edits_of(base):
    """every single edit of a base file (insert/delete/duplicate/replace a line, splice a fragment)"""
    from ..treeutil import ref_split_lines
    ls = ref_split_lines(base)
    if ls and ls[-1] == '':
        ls = ls[:-1]
    out = []
    for i in range(len(ls) + 1):
        for e in EDIT_LINES:
            if not e.endswith('\n') and i != len(ls):
                continue
            if i == len(ls) and ls and not ls[-1].endswith(('\n', '\r')):
                continue
            out.append(''.join(ls[:i] + [e] + ls[i:]))
    for i in range(len(ls)):
        out.append(''.join(ls[:i] + ls[i + 1:]))
        if ls[i].endswith(('\n', '\r')):
            out.append(''.join(ls[:i + 1] + [ls[i]] + ls[i + 1:]))
        for e in EDIT_LINES:
            if e.endswith('\n') or i == len(ls) - 1:
                out.append(''.join(ls[:i] + [e] + ls[i + 1:]))
        body = ls[i].rstrip('\r\n')
        for c in range(len(body) + 1):
            for f in FRAGMENTS:
                out.append(''.join(ls[:i] + [ls[i][:c] + f + ls[i][c:]] + ls[i + 1:]))
    return list(dict.fromkeys(out))


def used_names_index(m):
    idx = {}
    for l in leaves(m):
        if l.type == 'name':
            idx.setdefault(l.value, []).append(id(l))
    return idx


def fresh_canon(g, text):
    m = g.parse(text)
    return structure(m)


def transition(g, cache_mod, t0, t1, fresh1, case, acc, prime=True):
    """fresh state of t0 --parse(t1, diff_cache)--> must be the fresh state of t1"""
    from parso.utils import split_lines
    cache_mod.parser_cache.clear()
    try:
        m0 = g.parse(t0, diff_cache=True, path=PATH)
        if prime:
            m0.get_used_names()           # populate the index derived from the old tree
        m1 = g.parse(t1, diff_cache=True, path=PATH)
    except Exception as e:
        return acc.fail(('raises',) + core.exc_sig(e), case, repr(e))
    return post(g, cache_mod, m1, t1, fresh1, case, acc)


def post(g, cache_mod, m1, t1, fresh1, case, acc):
    from parso.utils import split_lines
    try:
        if m1.get_code() != t1:
            return acc.fail(('code-differs',), case, repr(m1.get_code()))
        if structure(m1) != fresh1:
            return acc.fail(('tree-differs-from-fresh-parse',), case)
        r = parents_ok(m1)
        if r:
            return acc.fail(('parent-links', r), case)
        un = m1.get_used_names()
        got = {k: [id(x) for x in v] for k, v in un.items()}
        if got != used_names_index(m1):
            return acc.fail(('used-names-stale',), case)
        item = cache_mod.parser_cache[g._hashed][__import__('pathlib').Path(PATH)]
        if item.node is not m1:
            return acc.fail(('cached-node-is-not-returned-node',), case)
        if item.lines != split_lines(t1, keepends=True):
            return acc.fail(('cached-lines-differ',), case)
    except Exception as e:
        return acc.fail(('oracle-raises',) + core.exc_sig(e), case, repr(e))
    return None


def _acc():
    acc = core.Acc()
    fnd = core.Findings(PROP)
    acc.classify = lambda sig, case, extra: fnd.match(sig, case, None, extra)
    return acc


_fresh_cache = {}


def pool_shard(pool, k, version, indices, slice_note=None):
    """all transitions T_i -> T' for i in indices and every T' of the pool's text set"""
    parso = env.setup()
    from parso import cache as cache_mod
    g = parso.load_grammar(version=version)
    texts = pool_texts(pool, k)
    key = (pool, k, version)
    fresh = _fresh_cache.get(key)
    if fresh is None:
        _fresh_cache.clear()
        fresh = _fresh_cache[key] = [fresh_canon(g, t) for t in texts]
    acc = _acc()
    for i in indices:
        t0 = texts[i]
        for j, t1 in enumerate(texts):
            acc.evaluations += 1
            if i != j:
                acc.nontrivial += 1
            transition(g, cache_mod, t0, t1, fresh[j],
                       {'history': [t0, t1], 'version': version}, acc)
    cache_mod.parser_cache.clear()
    if 0 in indices:
        acc.samples.append({'family': 'pool %s k<=%d' % (pool, k), 'history': [texts[len(texts) // 2], texts[-1]]})
    return acc.strip(), len(texts)


def edit_shard(base_no, version, shard_no, nshards, second):
    """base -> every single edit; (second) each single edit -> every edit of a slice of second edits;
    and every edit -> back to base (undoing)"""
    parso = env.setup()
    from parso import cache as cache_mod
    g = parso.load_grammar(version=version)
    base = BASES[base_no]
    eds = edits_of(base)
    acc = _acc()
    fresh_base = fresh_canon(g, base)
    n = 0
    for idx, e in enumerate(eds):
        if idx % nshards != shard_no:
            continue
        fe = fresh_canon(g, e)
        acc.evaluations += 2
        acc.nontrivial += 2
        transition(g, cache_mod, base, e, fe, {'history': [base, e], 'version': version}, acc)
        transition(g, cache_mod, e, base, fresh_base, {'history': [e, base], 'version': version}, acc)
        if second:
            # second edit: a real three-step history base -> e -> e2 (no reset in between)
            cache_mod.parser_cache.clear()
            try:
                g.parse(base, diff_cache=True, path=PATH)
                g.parse(e, diff_cache=True, path=PATH).get_used_names()
            except Exception as ex:
                continue
            eds2 = edits_of(e)
            for j, e2 in enumerate(eds2):
                if j % second != (idx % second):
                    continue
                acc.evaluations += 1
                acc.nontrivial += 1
                case = {'history': [base, e, e2], 'version': version}
                try:
                    # restore state "after base -> e" by replay, then the second edit
                    cache_mod.parser_cache.clear()
                    g.parse(base, diff_cache=True, path=PATH)
                    g.parse(e, diff_cache=True, path=PATH).get_used_names()
                    m2 = g.parse(e2, diff_cache=True, path=PATH)
                except Exception as ex:
                    acc.fail(('raises',) + core.exc_sig(ex), case, repr(ex))
                    continue
                post(g, cache_mod, m2, e2, fresh_canon(g, e2), case, acc)
    cache_mod.parser_cache.clear()
    if shard_no == 0:
        acc.samples.append({'family': 'edits of base %d' % base_no, 'history': [base[:60] + '...', eds[len(eds) // 2][:80] + '...']})
    return acc.strip(), len(eds)


def unmerged_shard(version, first):
    """all histories of length 3 over a 12-text set, *without* relying on the canonical-state argument"""
    parso = env.setup()
    from parso import cache as cache_mod
    g = parso.load_grammar(version=version)
    texts = UNMERGED
    acc = _acc()
    fresh = [fresh_canon(g, t) for t in texts]
    for b in range(len(texts)):
        for c in range(len(texts)):
            acc.evaluations += 1
            acc.nontrivial += 1
            case = {'history': [texts[first], texts[b], texts[c]], 'version': version}
            cache_mod.parser_cache.clear()
            try:
                g.parse(texts[first], diff_cache=True, path=PATH).get_used_names()
                g.parse(texts[b], diff_cache=True, path=PATH).get_used_names()
                m = g.parse(texts[c], diff_cache=True, path=PATH)
            except Exception as e:
                acc.fail(('raises',) + core.exc_sig(e), case, repr(e))
                continue
            post(g, cache_mod, m, texts[c], fresh[c], case, acc)
    cache_mod.parser_cache.clear()
    return acc.strip(), len(texts)


UNMERGED = ['', 'a\n', 'def f():\n    a = 1\n', 'def f():\n    a = 1\n    return (\n', 'class C:\n  x\n', 'if a:\n  x\nelse:\n  y\n',
            '@dec\ndef f():\n    a = 1\n', 'def f():\n    a = 1\nb', '"""\ndef f():\n"""\n', 'a = (\n    x,\n)\n', 'def f():\n    return (\n)\n',
            'class C:\n  x\n  def f():\n    a = 1\n']


def recheck(case):
    parso = env.setup()
    from parso import cache as cache_mod
    g = parso.load_grammar(version=case['version'])
    acc = core.Acc()
    h = case['history']
    cache_mod.parser_cache.clear()
    try:
        m = None
        for t in h:
            m = g.parse(t, diff_cache=True, path=PATH)
            if t is not h[-1]:
                m.get_used_names()
    except Exception as e:
        acc.fail(('raises',) + core.exc_sig(e), case, repr(e))
    else:
        post(g, cache_mod, m, h[-1], fresh_canon(g, h[-1]), case, acc)
    cache_mod.parser_cache.clear()
    return {sig for (_, sig) in acc.fails}


def tagged(job):
    return job[0], globals()[job[1]](*job[2:])


def run(tier, seed):
    R = core.Report(PROP, tier, seed, 'model_checking')
    V = env.VERSIONS
    jobs = []
    labels = []

    def add(label, fn, args_list):
        i = len(labels)
        labels.append(label)
        for a in args_list:
            jobs.append(((i, fn) + tuple(a),))

    def pool_jobs(pool, k, version, slice_mod=None, slice_eq=0, chunk=8):
        n = len(pool_texts(pool, k))
        idx = [i for i in range(n) if not slice_mod or i % slice_mod == slice_eq]
        return [(pool, k, version, idx[a:a + chunk]) for a in range(0, len(idx), chunk)]
    if tier == 'quick':
        for p in POOLS:
            for v in V:
                add('pool %s k<=2 %s' % (p, v), 'pool_shard', pool_jobs(p, 2, v))
        add('pool A k<=3 3.8', 'pool_shard', pool_jobs('A', 3, '3.8', 4, 0))
        p = 'BCD'[seed % 3]
        v = V[seed % len(V)]
        add('pool %s k<=3 %s slice%d/8' % (p, v, seed % 8), 'pool_shard', pool_jobs(p, 3, v, 8, seed % 8))
        for b in range(len(BASES)):
            for v in ('3.6', '3.8', '3.14'):
                add('edits base%d %s' % (b, v), 'edit_shard', [(b, v, s, 4, 0) for s in range(4)])
        for v in ('3.8',):
            add('unmerged length-3 histories %s' % v, 'unmerged_shard', [(v, i) for i in range(len(UNMERGED))])
    else:
        for p in POOLS:
            for v in V:
                add('pool %s k<=3 %s' % (p, v), 'pool_shard', pool_jobs(p, 3, v))
        for b in range(len(BASES)):
            for v in V:
                add('edits base%d %s' % (b, v), 'edit_shard', [(b, v, s, 16, 0) for s in range(16)])
            add('double edits base%d 3.8' % b, 'edit_shard', [(b, '3.8', s, 64, 40) for s in range(64)])
        for v in V:
            add('unmerged length-3 histories %s' % v, 'unmerged_shard', [(v, i) for i in range(len(UNMERGED))])
    accs = [core.Acc() for _ in labels]
    sizes = [0] * len(labels)
    for i, (a, n) in core.pmap(MOD, 'tagged', jobs):
        accs[i].merge(a)
        sizes[i] = max(sizes[i], n)
    states = 0
    for label, acc, n in zip(labels, accs, sizes):
        R.section(label, acc, texts=n)
        states += n
    trans = R.acc.evaluations
    R.coverage.update(states=states, transitions=trans, traces_validated_against_impl=trans)
    R.rule = ('explicit-state exploration of the diff-parser cache: state = canonical form of the cached (module, '
              'lines); transition = parse(T\', diff_cache=True) executed on the real code from the fresh state of T; '
              'every transition must land in the canonical fresh state of T\' (then every history over the text set '
              'is decided by all ordered pairs).  Text sets: all files of <= k lines over 4 line pools; every single '
              '(thorough: double) edit of 10 base files and its undo; all length-3 histories over 12 texts unmerged. '
              'states = distinct texts (= canonical states, all reached), transitions = executed re-parses')
    R.assumptions = ['DiffParser reads the old tree only through children/type/value/prefix/positions/parent and '
                     '_used_names, which the canonical form and the oracles cover',
                     'text sets limited to the listed line pools, base files and edit menus']
    return R.finish(recheck)
