"""C05 trees conform to the grammar; invalid input is confined to error nodes."""
from .. import core, engb, env, sigma
from ..conform import Conform
from ..treeutil import has_err

PROP = 'C05'
MOD = 'vp.props.c05'
ZERO = ('INDENT', 'DEDENT', 'ERROR_DEDENT')


def setup(fam):
    import parso
    return {v: (parso.load_grammar(version=v), Conform(v)) for v in fam['versions']}


def check_text(ctx, fam, text, acc):
    for v, (g, cf) in ctx.items():
        acc.evaluations += 1
        case = {'text': text, 'version': v}
        try:
            m = g.parse(text)
        except Exception as e:
            acc.fail(('parse-raises',) + core.exc_sig(e), case, repr(e))
            continue
        try:
            bad = cf.check_tree(m)
        except Exception as e:
            acc.fail(('matcher-raises',) + core.exc_sig(e), case, repr(e))
            continue
        for reason, node in bad:
            acc.fail(('nonconforming', reason), case, 'node %r children %r' % (node, node.children),
                     extra=(g, cf, m, node, text))
        if has_err(m) or len(m.children) > 2:
            acc.nontrivial += 1


def rule_dedent_in_brackets(case, sig, extra, match):
    """C05-F1: the missing-final-newline tolerance also fires at a DEDENT that the tokenizer emits inside
    open brackets (always-break keyword): a simple statement without NEWLINE in the middle of the file.
    Predicate: the node conforms once every leaf that is followed, per the real tokenizer, by a DEDENT not
    preceded by NEWLINE is treated like end-of-file."""
    if extra is None:
        return False
    g, cf, m, node, text = extra
    toks = list(g._tokenize(text))
    relaxed = set()
    for i, t in enumerate(toks):
        if t.type.name != 'DEDENT':
            continue
        j = i - 1
        while j >= 0 and toks[j].type.name in ZERO:
            j -= 1
        if j >= 0 and toks[j].type.name != 'NEWLINE':
            relaxed.add(toks[j].start_pos)
    if not relaxed:
        return False
    cf.relaxed = relaxed
    try:
        return cf.check_node(node, m) is None
    finally:
        cf.relaxed = None


RULES = {'c05_dedent_in_brackets': rule_dedent_in_brackets}


def recheck(case):
    return sigma.recheck_text(MOD, case)


# ---- matcher self-test: tampered trees must be reported ------------------------------------------
def selftest():
    import parso
    g = parso.load_grammar(version='3.8')
    cf = Conform('3.8')
    src = 'if a:\n    b = 1\nelse:\n    c\ndef f(x, y=1):\n    return x\nfor i in j: pass\nz = [k for k in l]\n'
    detected = total = 0
    problems = []

    def tamper(fn, what):
        nonlocal detected, total
        m = g.parse(src)
        assert not cf.check_tree(m), 'pristine tree reported'
        fn(m)
        total += 1
        if cf.check_tree(m):
            detected += 1
        else:
            problems.append(what)
    if_stmt = lambda m: m.children[0]
    funcdef = lambda m: m.children[1]
    tamper(lambda m: if_stmt(m).children.pop(2), 'if_stmt without colon')
    tamper(lambda m: if_stmt(m).children.insert(0, if_stmt(m).children[0]), 'duplicated if keyword')
    tamper(lambda m: if_stmt(m).children.__setitem__(slice(0, 2), if_stmt(m).children[1::-1]), 'swapped if/test')
    tamper(lambda m: funcdef(m).children.pop(1), 'funcdef without name')
    tamper(lambda m: funcdef(m).children[2].children.pop(0), 'parameters without (')
    tamper(lambda m: funcdef(m).children[-1].children.pop(0), 'suite without NEWLINE')
    tamper(lambda m: m.children[2].children.pop(2), 'for_stmt without in')
    tamper(lambda m: m.children[3].children[0].children.pop(1), 'expr_stmt without =')
    tamper(lambda m: m.children.pop(), 'file_input without endmarker')
    tamper(lambda m: m.children[3].children[0].children[2].children.append(
        m.children[3].children[0].children[2].children[0]), 'atom with extra bracket')

    def errnode_inside(m):
        from parso.python.tree import PythonErrorNode
        e = m.children[3].children[0]
        e.children[2] = PythonErrorNode([e.children[2]])
    tamper(errnode_inside, 'error node inside an expression statement')
    return detected, total, problems


def families(tier, seed):
    V = env.VERSIONS
    if tier == 'quick':
        fams = [sigma.fam(a, 3, V) for a in ('blocks', 'strs', 'ops', 'stm', 'stm2', 'sem')]
        fams += [sigma.fam(a, 4, ['3.6', '3.8', '3.14'], name='%s=4' % a, n_lo=4)
                 for a in ('blocks', 'strs', 'ops', 'stm')]
        k = ('stm2', 'sem')[seed % 2]
        fams.append(sigma.seed_slice(k, 4, ['3.8', '3.14'], seed, 16))
    else:
        fams = [sigma.fam(a, 4, V) for a in ('blocks', 'strs', 'ops', 'stm', 'stm2', 'sem')]
        fams += [sigma.fam(a, 5, ['3.6', '3.12'], name='%s=5' % a, n_lo=5) for a in ('blocks', 'strs', 'stm')]
    if tier == 'quick':
        fams += [sigma.g3('3.8', 4), sigma.g3('3.13', 5, slice_mod=8, slice_eq=seed % 8)]
    else:
        fams += [sigma.g3(v, 7) for v in ('3.6', '3.8', '3.12', '3.14')]
    return fams


def run(tier, seed):
    R = core.Report(PROP, tier, seed, 'exploration')
    det, tot, problems = selftest()
    if det != tot:
        print('INTERNAL: conformance matcher self-test missed tampered trees: %r' % (problems,))
        return 2
    R.coverage['matcher_selftest'] = {'tampered_trees': tot, 'reported': det}
    R.rule = ('every distinct text over each named lexeme alphabet with <= n symbols x versions and every line '
              'history of E-B (= reachable parser stacks after recovery up to the depth bound); every non-error '
              'node of every tree is matched against the reference automaton of its rule; non-trivial = trees '
              'with an error node/leaf or more than one statement')
    R.assumptions = ['vp/refgrammar.py is the reference reading of the grammar files (bound to parso by C08)',
                     'conventions allowed: single-child collapse, suite INDENT/DEDENT omitted, param grouping, '
                     'lambdef_nocond->lambdef, final NEWLINE absent at end of file, error node in suite position']
    sigma.sweep(R, MOD, families(tier, seed))
    engb.run_plan(R, MOD, tier, seed)
    return R.finish(recheck)
