"""C06 the parser accepts every sentence of the grammar and returns its derivation."""
from .. import core, env
from .. import sentences as SG
from ..treeutil import has_err, structure

PROP = 'C06'
MOD = 'vp.props.c06'


def check_sentence(g, start, text, tree, toks, spell, case, acc):
    """strict parse accepts, tree == derivation, recovering parse identical."""
    from parso.python.tokenize import tokenize
    got = [(x.type.name, x.string) for x in tokenize(text, version_info=g.version_info)]
    if not SG.tokens_match(got, SG.intended(toks, spell)):
        return 'excluded'
    kw = {} if start == 'file_input' else {'start_symbol': start}
    try:
        m = g.parse(text, error_recovery=False, **kw)
    except Exception as e:
        acc.fail(('strict-parse-rejects-sentence',) + core.exc_sig(e)[:1], case, repr(e))
        return 'fail'
    a = SG.flatten_params_deriv(SG.canon_deriv(tree, spell))
    b = SG.canon_parso(m)
    if not SG.same_canon(a, b):
        if True:
            acc.fail(('tree-differs-from-derivation',), case, 'derivation %r\nparso %r' % (a, b))
            return 'fail'
    bad = _conform(g).check_tree(m)
    if bad:
        acc.fail(('tree-violates-conventions', bad[0][0]), case, repr(bad[0][1]))
        return 'fail'
    if m.get_code() != text:
        acc.fail(('code-differs',), case)
        return 'fail'
    if start == 'file_input':
        try:
            m2 = g.parse(text)
        except Exception as e:
            acc.fail(('recovering-parse-raises',) + core.exc_sig(e), case, repr(e))
            return 'fail'
        if has_err(m2):
            acc.fail(('recovering-parse-has-error-nodes',), case)
            return 'fail'
        if structure(m2) != structure(m):
            acc.fail(('recovering-tree-differs',), case)
            return 'fail'
    return 'ok'


_CF = {}


def _conform(g):
    from ..conform import Conform
    v = '%d.%d' % (g.version_info.major, g.version_info.minor)
    c = _CF.get(v)
    if c is None:
        c = _CF[v] = Conform(v)
    return c


def _strings_equiv(a, b):
    """with an implicit-concatenation spelling the derivation has one STRING where parso has a `strings`
    node of STRING leaves (the grammar's own `strings: STRING+` rule); accept exactly that."""
    if a[0] == 'leaf' and a[1] == 'STRING' and a[2] is None:
        if b[0] == 'leaf':
            return b[1] == 'STRING'
        return b[1] == 'strings' and all(k[0] == 'leaf' and k[1] == 'STRING' for k in b[2])
    if a[0] != b[0]:
        return False
    if a[0] == 'leaf':
        return a[1] == b[1] and (a[2] is None or b[2] is None or a[2] == b[2])
    if a[1] != b[1] or len(a[2]) != len(b[2]):
        return False
    return all(_strings_equiv(x, y) for x, y in zip(a[2], b[2]))


def shard(version, start, L, shard_no, nshards, mode):
    """mode: 'g2' | 'dev' (G2(L) with one deviation) | 'nested'"""
    parso = env.setup()
    g = parso.load_grammar(version=version)
    gen = SG.Generator(version, start)
    acc = core.Acc()
    fnd = core.Findings(PROP)
    acc.classify = lambda sig, case, extra: fnd.match(sig, case, None, extra)
    excluded = implausible = 0
    src = gen.nested(L) if mode == 'nested' else gen.sentences(L)
    i = -1
    for rule, w, tree, toks in src:
        i += 1
        if i % nshards != shard_no:
            continue
        if not SG.plausible(toks):
            implausible += 1
            continue
        variants = [('plain', {}, None)]
        if mode == 'dev':
            variants = list(SG.deviations(toks))
        for label, kw, spell in variants:
            text = SG.render(toks, **kw)
            case = {'text': text, 'version': version, 'start': start, 'rule': rule, 'variant': label}
            acc.evaluations += 1
            r = check_sentence(g, start, text, tree, toks, spell, case, acc)
            if r == 'excluded':
                excluded += 1
            elif r == 'ok':
                acc.nontrivial += 1
                if mode != 'dev':
                    gen.mark(tree)
        if shard_no == 0 and len(acc.samples) < 2 and len(toks) > 8:
            acc.samples.append({'family': '%s/%s/%s' % (mode, version, start), 'rule': rule, 'text': SG.render(toks)})
    acc.counters['excluded-by-retokenisation'] += excluded
    acc.counters['implausible-newline'] += implausible
    return acc.strip(), gen.covered, gen.unreachable


def recheck(case):
    parso = env.setup()
    g = parso.load_grammar(version=case['version'])
    # the recorded text is re-parsed and compared with the recovering parse; derivation equality needs the
    # generator, so re-run the rule's sentences and look for the same text
    gen = SG.Generator(case['version'], case['start'])
    acc = core.Acc()
    for mode_src in (gen.sentences(12, rules={case['rule']}), gen.nested(6)):
        for rule, w, tree, toks in mode_src:
            if rule != case['rule'] or not SG.plausible(toks):
                continue
            variants = [('plain', {}, None)] if case['variant'] == 'plain' else SG.deviations(toks)
            for label, kw, spell in variants:
                if SG.render(toks, **kw) == case['text']:
                    check_sentence(g, case['start'], case['text'], tree, toks, spell, case, acc)
                    return {sig for (_, sig) in acc.fails}
    return set()


def run(tier, seed):
    R = core.Report(PROP, tier, seed, 'exploration')
    L = 10 if tier == 'quick' else 12
    nsh = 4 if tier == 'quick' else 16
    jobs = []
    for v in env.VERSIONS:
        for start in ('file_input', 'eval_input'):
            jobs += [(v, start, L, s, nsh, 'g2') for s in range(nsh)]
    if tier == 'thorough':
        for v in env.VERSIONS:
            for start in ('file_input', 'eval_input'):
                jobs += [(v, start, 8, s, 32, 'dev') for s in range(32)]
                jobs += [(v, start, 4, s, nsh, 'nested') for s in range(nsh)]
    else:
        for v in env.VERSIONS:
            jobs += [(v, 'file_input', 6, s, 8, 'dev') for s in range(8)]
            jobs += [(v, 'file_input', 3, s, 4, 'nested') for s in range(4)]
        v = env.VERSIONS[seed % len(env.VERSIONS)]
        jobs += [(v, 'eval_input', 7, s, 16, 'dev') for s in range(16)]
    accs = {}
    cov = {}
    unreach = {}
    for job, (a, covered, unr) in zip(jobs, _run_jobs(jobs)):
        pass
    for (v, start, mode), (a, covered, unr) in _collect(jobs).items():
        accs[(v, start, mode)] = a
    # arc coverage per (version, start)
    warnings = []
    for key in sorted(_COV):
        v, start = key
        gen = SG.Generator(v, start)
        gen.covered = _COV[key]
        total, missing = gen.arc_coverage()
        R.coverage.setdefault('arc_coverage', {})['%s/%s' % key] = {
            'arcs': total, 'covered': total - len(missing), 'unreachable_rules': gen.unreachable}
        if missing:
            warnings.append('%s/%s: %d arcs not exercised, e.g. %r' % (v, start, len(missing), missing[:3]))
    for key in sorted(accs):
        R.section('%s/%s/%s' % (key[2], key[0], key[1]), accs[key], version=key[0], start=key[1], mode=key[2])
    if warnings:
        R.notes += warnings
        for w in warnings:
            print('  note: arc coverage ' + w)
    R.rule = ('family G2(L=%d): for every rule reachable from file_input / eval_input every symbol word of length '
              '<= max(minlen+1, L) in its shortest context, all other nonterminals minimally expanded; rendered '
              'and kept only if the real tokenizer returns the intended token sequence; plus one-deviation '
              'renderings and two-level nested words; non-trivial = sentences accepted with the expected tree'
              % L)
    R.assumptions = ['vp/refgrammar.py is the reference reading of the grammar files (bound to parso by C08)',
                     'renderings the tokenizer re-lexes differently are outside the claim and counted as excluded']
    return R.finish(recheck)


_COV = {}
_ACCS = {}


def _run_jobs(jobs):
    _COV.clear()
    _ACCS.clear()
    for (a, covered, unr), job in _pmap_with_args(jobs):
        v, start, L, s, nsh, mode = job
        key = (v, start, mode)
        if key not in _ACCS:
            _ACCS[key] = core.Acc()
        _ACCS[key].merge(a)
        _COV.setdefault((v, start), set()).update(covered)
    return []


def _collect(jobs):
    return {k: (a, None, None) for k, a in _ACCS.items()}


def shard_tagged(job):
    return shard(*job), job


def _pmap_with_args(jobs):
    for r in core.pmap(MOD, 'shard_tagged', [(j,) for j in jobs]):
        yield r
