"""C07 strict and recovering parsers agree on what is a syntax error."""
from .. import core, engb, env, sigma
from ..treeutil import has_err, structure

PROP = 'C07'
MOD = 'vp.props.c07'
VIRTUAL = ('INDENT', 'DEDENT', 'ERROR_DEDENT')


def setup(fam):
    import parso
    return {v: parso.load_grammar(version=v) for v in fam['versions']}


def first_error_mark(m):
    """Positionally first among all error leaves (nested ones included) and the leaves following error
    nodes; ties by DFS order."""
    cands = []
    order = [0]

    def walk(n):
        order[0] += 1
        if n.type == 'error_leaf':
            cands.append((n.start_pos, order[0], n))
        if n.type == 'error_node':
            # leaf following the error node, found by own descent (not get_next_leaf)
            cands.append(('after', order[0], n))
        if hasattr(n, 'children'):
            for c in n.children:
                walk(c)
    walk(m)
    # resolve 'after' candidates with an independent leaf list
    ls = []

    def coll(n):
        if hasattr(n, 'children'):
            for c in n.children:
                coll(c)
        else:
            ls.append(n)
    coll(m)
    idx = {id(l): i for i, l in enumerate(ls)}
    out = []
    for pos, o, n in cands:
        if pos == 'after':
            last = n
            while hasattr(last, 'children'):
                last = last.children[-1]
            i = idx[id(last)] + 1
            if i < len(ls):
                out.append((ls[i].start_pos, o + 10 ** 6, ls[i]))
        else:
            out.append((pos, o, n))
    return min(out, key=lambda x: (x[0], x[1]))[2] if out else None


def check_text(ctx, fam, text, acc):
    from parso.parser import ParserSyntaxError
    for v, g in ctx.items():
        acc.evaluations += 1
        case = {'text': text, 'version': v}
        try:
            m = g.parse(text)
        except Exception as e:
            acc.fail(('recovering-parse-raises',) + core.exc_sig(e), case, repr(e))
            continue
        he = has_err(m)
        if he:
            acc.nontrivial += 1
        try:
            m2 = g.parse(text, error_recovery=False)
        except ParserSyntaxError as e:
            if not he:
                acc.fail(('strict-raises-but-no-error-in-tree',), case, repr(e.error_leaf))
                continue
            fe = first_error_mark(m)
            el = e.error_leaf
            tt = getattr(el.token_type, 'name', el.token_type)
            virt = el.value == '' and tt in VIRTUAL
            if fe is None or fe.start_pos != el.start_pos:
                acc.fail(('error-leaf-position',), case, 'strict %r at %r, recovered first mark %r at %r' % (
                    el, el.start_pos, fe, fe and fe.start_pos))
            elif not virt and fe.value != el.value:
                acc.fail(('error-leaf-value',), case, 'strict %r, recovered %r' % (el, fe))
            continue
        except Exception as e:
            acc.fail(('strict-raises-other',) + core.exc_sig(e), case, repr(e))
            continue
        if he:
            acc.fail(('strict-accepts-but-error-in-tree',), case)
        elif structure(m2) != structure(m):
            acc.fail(('trees-differ',), case)
        else:
            acc.nontrivial += 1 if len(m.children) > 2 else 0


def recheck(case):
    return sigma.recheck_text(MOD, case)


def families(tier, seed):
    V = env.VERSIONS
    if tier == 'quick':
        fams = [sigma.fam(a, 3, V) for a in ('blocks', 'strs', 'ops', 'stm', 'stm2', 'ws', 'indent')]
        fams += [sigma.fam(a, 4, ['3.6', '3.8', '3.14'], name='%s=4' % a, n_lo=4)
                 for a in ('blocks', 'strs', 'ops', 'stm', 'indent')]
        k = ('stm2', 'ws')[seed % 2]
        fams.append(sigma.seed_slice(k, 4, ['3.8', '3.14'], seed, 16))
    else:
        fams = [sigma.fam(a, 4, V) for a in ('blocks', 'strs', 'ops', 'stm', 'stm2', 'ws', 'indent')]
        fams += [sigma.fam(a, 5, ['3.6', '3.12'], name='%s=5' % a, n_lo=5) for a in ('blocks', 'strs', 'indent')]
    if tier == 'quick':
        fams += [sigma.g3('3.8', 4), sigma.g3('3.13', 5, slice_mod=8, slice_eq=seed % 8)]
    else:
        fams += [sigma.g3(v, 7) for v in ('3.6', '3.8', '3.12', '3.14')]
    return fams


def run(tier, seed):
    R = core.Report(PROP, tier, seed, 'exploration')
    R.rule = ('every distinct text over each named lexeme alphabet with <= n symbols x versions and every line '
              'history of E-B, parsed strictly and with recovery; non-trivial = texts whose recovered tree has an '
              'error node/leaf, or valid texts with more than one statement')
    R.assumptions = ['texts limited to the listed alphabets/lengths/line pools',
                     'when strict parsing stops at a virtual INDENT/DEDENT token only the position is compared']
    sigma.sweep(R, MOD, families(tier, seed))
    engb.run_plan(R, MOD, tier, seed)
    return R.finish(recheck)
