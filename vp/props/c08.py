"""C08 the parser generator is faithful to the grammar text and truly LL(1).

(a) product exploration reference automaton x generated DFA (bisimulation) for every rule,
(b) the token->plan table of every automaton state recomputed from the reference,
(c) the same on *all* small EBNF grammars, where generate_grammar must raise exactly for the
    grammars the reference finds not LL(1) / left recursive."""
import ast as pyast
import collections
import glob
import os

from .. import core, env
from .. import refgrammar as RG

PROP = 'C08'
MOD = 'vp.props.c08'


class NotLL1(Exception):
    pass


def ref_verdict(ref):
    """'ok' or 'error' (left recursion, or two arcs of one state sharing a first token)."""
    R = ref.rules
    edges = {n: sorted(a for a in RG.firsts(r) if a in R) for n, r in R.items()}
    color = {}

    def dfs(n):
        color[n] = 1
        for m in edges[n]:
            if color.get(m) == 1:
                return True
            if m not in color and dfs(m):
                return True
        color[n] = 2
        return False
    for n in sorted(R):
        if n not in color and dfs(n):
            return 'error'
    for n in R:
        for S, arcs in ref.automaton(n).items():
            claimed = collections.Counter()
            for a in arcs:
                if a in R:
                    for t in ref.first(a):
                        claimed[t] += 1
                else:
                    claimed[a] += 1
            if any(c > 1 for c in claimed.values()):
                return 'error'
    return 'ok'


def check_generated(ref, pg, token_namespace, fail):
    """(a)+(b) for one generated grammar against its reference reading.  Returns (states, transitions)."""
    nstates = ntrans = 0
    rule_names = list(ref.rules)
    if set(pg.nonterminal_to_dfas) != set(rule_names):
        fail(('rule-set-differs',), 'parso %r ref %r' % (sorted(pg.nonterminal_to_dfas), sorted(rule_names)))
        return 0, 0
    if set(pg.reserved_syntax_strings) != ref.reserved:
        fail(('reserved-strings-differ',), repr(set(pg.reserved_syntax_strings) ^ ref.reserved))
    for v, rs in pg.reserved_syntax_strings.items():
        if getattr(rs, 'value', None) != v:
            fail(('reserved-string-value',), repr(v))
    # (a) product exploration per rule
    pairs = {}
    for rule in rule_names:
        dfas = pg.nonterminal_to_dfas[rule]
        S0 = ref.start_state(rule)
        seen = {(S0, id(dfas[0]))}
        work = [(S0, dfas[0])]
        reached = {id(dfas[0])}
        while work:
            S, D = work.pop()
            nstates += 1
            if D.from_rule != rule:
                fail(('from_rule-wrong', rule), repr(D))
            if RG.S_nullable(S) != bool(D.is_final):
                fail(('finality-differs', rule), 'ref nullable=%s, is_final=%s' % (RG.S_nullable(S), D.is_final))
            fs = RG.S_firsts(S)
            if fs != set(D.arcs):
                fail(('arc-labels-differ', rule), 'ref %r parso %r' % (sorted(fs), sorted(D.arcs)))
            exp_nt = {a for a in fs if a in ref.rules}
            if set(D.nonterminal_arcs) != exp_nt:
                fail(('nonterminal-arcs-differ', rule), '%r vs %r' % (sorted(D.nonterminal_arcs), sorted(exp_nt)))
            for a in fs & set(D.arcs):
                ntrans += 1
                S2 = RG.S_deriv(S, a)
                D2 = D.arcs[a]
                if a in D.nonterminal_arcs and D.nonterminal_arcs[a] is not D2:
                    fail(('nonterminal-arc-target', rule), a)
                key = (S2, id(D2))
                if key not in seen:
                    seen.add(key)
                    reached.add(id(D2))
                    work.append((S2, D2))
        for d in dfas:
            if id(d) not in reached:
                fail(('unreachable-dfa-state', rule), repr(d))
        pairs[rule] = seen
    # (b) transition tables recomputed from the reference
    try:
        for n in ref.rules:
            ref.first(n)
    except RecursionError:
        fail(('accepted-left-recursive-grammar',), '')
        return nstates, ntrans

    def key_of(label):
        if RG.is_quoted(label):
            return pg.reserved_syntax_strings.get(pyast.literal_eval(label))
        return getattr(token_namespace, label)

    def chain(N, t):
        """reference push chain for token label t entering nonterminal N: [(rule, ref state after step)]"""
        S = ref.start_state(N)
        hits = []
        for a in RG.S_firsts(S):
            if a in ref.rules:
                if t in ref.first(a):
                    hits.append(a)
            elif a == t:
                hits.append(a)
        if len(hits) != 1:
            raise NotLL1('%s: token %s claimed by %r' % (N, t, hits))
        a = hits[0]
        step = [(N, RG.S_deriv(S, a))]
        if a in ref.rules:
            return step + chain(a, t)
        return step

    idmap = {id(d): d for dfas in pg.nonterminal_to_dfas.values() for d in dfas}
    for rule in rule_names:
        done = set()
        for S, did in sorted(pairs[rule], key=lambda p: p[1]):
            D = idmap.get(did)
            if D is None:
                continue        # a state outside nonterminal_to_dfas: already reported by the product pass
            if did in done:
                continue
            done.add(did)
            expected = {}
            try:
                for a in RG.S_firsts(S):
                    S2 = RG.S_deriv(S, a)
                    if a in ref.rules:
                        for t in ref.first(a):
                            if t in expected:
                                raise NotLL1('%s: token %s claimed twice' % (rule, t))
                            expected[t] = (S2, chain(a, t))
                    else:
                        if a in expected:
                            raise NotLL1('%s: token %s claimed twice' % (rule, a))
                        expected[a] = (S2, [])
            except NotLL1 as e:
                fail(('accepted-non-LL1-grammar',), str(e))
                continue
            exp_keys = {}
            for t in expected:
                k = key_of(t)
                if k is None:
                    fail(('no-reserved-string-object', rule), t)
                    continue
                exp_keys[k] = t
            if set(D.transitions.keys()) != set(exp_keys.keys()):
                got = set(D.transitions.keys())
                fail(('transition-keys-differ', rule),
                     'missing %r extra %r' % ([exp_keys[k] for k in set(exp_keys) - got],
                                              [repr(k) for k in got - set(exp_keys)]))
                continue
            for k, t in exp_keys.items():
                ntrans += 1
                plan = D.transitions[k]
                S2, ch = expected[t]
                if (S2, id(plan.next_dfa)) not in pairs[rule]:
                    fail(('plan-next-state-wrong', rule), t)
                pushes = list(plan.dfa_pushes)
                if len(pushes) != len(ch):
                    fail(('plan-push-chain-length', rule), '%s: %d vs %d' % (t, len(pushes), len(ch)))
                    continue
                for p, (r2, Sx) in zip(pushes, ch):
                    if p.from_rule != r2 or (Sx, id(p)) not in pairs[r2]:
                        fail(('plan-push-chain-wrong', rule), t)
                        break
    return nstates, ntrans


# ---- shipped grammar files ------------------------------------------------------------------
def shipped(path):
    env.setup()
    from parso.pgen2 import generate_grammar
    from parso.python.token import PythonTokenTypes
    acc = core.Acc()
    fnd = core.Findings(PROP)
    acc.classify = lambda sig, case, extra: fnd.match(sig, case, None, extra)
    text = open(path).read()
    name = os.path.basename(path)
    case = {'file': name}
    ref = RG.RefGrammar(text)
    try:
        pg = generate_grammar(text, PythonTokenTypes)
    except Exception as e:
        acc.fail(('shipped-grammar-rejected',) + core.exc_sig(e), case, repr(e))
        return acc.strip(), 0, 0
    if ref_verdict(ref) != 'ok':
        acc.fail(('shipped-grammar-not-LL1-by-reference',), case)
    st, tr = check_generated(ref, pg, PythonTokenTypes, lambda sig, d: acc.fail(sig, case, d))
    # also the grammar object that parso actually uses for this file (load_grammar path)
    import parso
    ver = name[len('grammar'):-len('.txt')]
    g = parso.load_grammar(version=ver[0] + '.' + ver[1:])
    st2, tr2 = check_generated(ref, g._pgen_grammar, PythonTokenTypes,
                               lambda sig, d: acc.fail(('loaded',) + tuple(sig), case, d))
    acc.evaluations += len(ref.rules) * 2
    acc.nontrivial += len(ref.rules)
    acc.samples.append({'family': 'shipped', 'file': name, 'rules': len(ref.rules), 'product_states': st})
    return acc.strip(), st + st2, tr + tr2


# ---- all small grammars ---------------------------------------------------------------------
SYMS1 = ["'a'", "'b'", 'NAME', 'x', 'y']
SYMS2 = ["'a'", "'b'", 'NAME', 'x', 'y', 's']


def exprs(size, syms):
    """all EBNF expression strings with exactly `size` operators"""
    if size == 0:
        for s in syms:
            yield s
        return
    for e in exprs(size - 1, syms):
        yield '[' + e + ']'
        yield '(' + e + ')*'
        yield '(' + e + ')+'
    for k in range(size):
        for l in exprs(k, syms):
            for r in exprs(size - 1 - k, syms):
                yield '(' + l + ' ' + r + ')'
                yield '(' + l + ' | ' + r + ')'


def small_texts(maxsize):
    rhs = [e for k in range(maxsize + 1) for e in exprs(k, SYMS1)]
    small = [e for k in range(2) for e in exprs(k, SYMS2)]
    return rhs, small


def small_shard(maxsize, shard, nshards, slice_mod=0, slice_eq=0, e2min=False):
    env.setup()
    from parso.pgen2 import generate_grammar
    from parso.python.token import PythonTokenTypes
    acc = core.Acc()
    fnd = core.Findings(PROP)
    acc.classify = lambda sig, case, extra: fnd.match(sig, case, None, extra)
    rhs, small = small_texts(maxsize)
    if slice_mod:
        # the seed slice: expressions with exactly `maxsize` operators whose index = slice_eq (mod slice_mod)
        rhs = [e for j, e in enumerate(exprs(maxsize, SYMS1)) if j % slice_mod == slice_eq]
    if e2min:
        # every expression with exactly `maxsize` operators, against the two simplest second rules only
        rhs = list(exprs(maxsize, SYMS1))
        small = ["'a'", 'NAME']
    st = tr = 0
    verd = collections.Counter()
    i = -1
    for e1 in rhs:
        i += 1
        if i % nshards != shard:
            continue
        for e2 in small:
            text = "s: %s\nx: %s\ny: 'b' NAME\n" % (e1, e2)
            case = {'grammar': text}
            acc.evaluations += 1
            ref = RG.RefGrammar(text)
            rv = ref_verdict(ref)
            try:
                pg = generate_grammar(text, PythonTokenTypes)
                pv = 'ok'
            except ValueError:
                pv = 'error'
            except Exception as e:
                acc.fail(('generate-raises-other',) + core.exc_sig(e), case, repr(e))
                continue
            verd[(rv, pv)] += 1
            if rv != pv:
                acc.fail(('verdict-differs', 'reference=' + rv, 'parso=' + pv), case)
                continue
            if pv == 'ok':
                acc.nontrivial += 1
                a, b = check_generated(ref, pg, PythonTokenTypes, lambda sig, d: acc.fail(sig, case, d))
                st += a
                tr += b
    acc.counters.update({'small:%s/%s' % k: v for k, v in verd.items()})
    if shard == 0:
        acc.samples.append({'family': 'small-grammars', 'grammar': "s: %s\nx: %s\ny: 'b' NAME\n" % (rhs[-1], small[-1])})
    return acc.strip(), st, tr


def recheck(case):
    env.setup()
    from parso.pgen2 import generate_grammar
    from parso.python.token import PythonTokenTypes
    sigs = set()
    if 'file' in case:
        a, _, _ = shipped(os.path.join(env.REPO, 'parso', 'python', case['file']))
        return {sig for (_, sig) in a.fails}
    text = case['grammar']
    ref = RG.RefGrammar(text)
    rv = ref_verdict(ref)
    try:
        pg = generate_grammar(text, PythonTokenTypes)
        pv = 'ok'
    except ValueError:
        pv = 'error'
    except Exception as e:
        return {tuple(str(x) for x in ('generate-raises-other',) + core.exc_sig(e))}
    if rv != pv:
        return {('verdict-differs', 'reference=' + rv, 'parso=' + pv)}
    if pv == 'ok':
        check_generated(ref, pg, PythonTokenTypes, lambda sig, d: sigs.add(tuple(str(x) for x in sig)))
    return sigs


def run(tier, seed):
    R = core.Report(PROP, tier, seed, 'model_checking')
    files = sorted(glob.glob(os.path.join(env.REPO, 'parso', 'python', 'grammar*.txt')))
    st = tr = 0
    acc = core.Acc()
    for a, s, t in core.pmap(MOD, 'shipped', [(f,) for f in files]):
        acc.merge(a)
        st += s
        tr += t
    R.section('shipped-grammar-files', acc, files=[os.path.basename(f) for f in files], product_states=st,
              product_transitions=tr)
    size = 2 if tier == 'quick' else 3
    nsh = 64 if tier == 'quick' else 512
    acc2 = core.Acc()
    st2 = tr2 = 0
    for a, s, t in core.pmap(MOD, 'small_shard', [(size, i, nsh) for i in range(nsh)]):
        acc2.merge(a)
        st2 += s
        tr2 += t
    rhs, small = small_texts(size)
    R.section('all-small-grammars', acc2, max_operators=size, rhs_count=len(rhs), second_rule_count=len(small),
              product_states=st2, product_transitions=tr2)
    if tier == 'quick':
        acc3 = core.Acc()
        for a, s, t in core.pmap(MOD, 'small_shard', [(3, i, 64, 24, seed % 24) for i in range(64)]):
            acc3.merge(a)
            st2 += s
            tr2 += t
        R.section('small-grammars-3-operators/slice%d' % (seed % 24), acc3, slice_mod=24, slice_eq=seed % 24)
        acc4 = core.Acc()
        for a, s, t in core.pmap(MOD, 'small_shard', [(3, i, 64, 0, 0, True) for i in range(64)]):
            acc4.merge(a)
            st2 += s
            tr2 += t
        R.section('all-3-operator-first-rules/2-second-rules', acc4, rhs_count=len(list(exprs(3, SYMS1))),
                  second_rules=["'a'", 'NAME'])
    R.coverage.update(states=st + st2, transitions=tr + tr2, traces_validated_against_impl=tr + tr2)
    R.rule = ('product BFS (set of Antimirov residuals x generated DFAState) over every rule of every shipped '
              'grammar file, and of every grammar "s: E1 / x: E2 / y: \'b\' NAME" with E1 over all EBNF '
              'expressions of <= %d operators and E2 of <= 1; every product transition steps the real '
              'generated table' % size)
    R.assumptions = ['vp/refgrammar.py (independent EBNF reader + Antimirov derivatives) is the reference',
                     'small grammars: symbols \'a\' \'b\' NAME x y (and s in the second rule)']
    return R.finish(recheck)
