"""C09 tokenizer is lossless, position-true, indentation-balanced; prefixes are pure; prefix splitting exact."""
import re

from .. import core, env, sigma
from ..treeutil import leaves, advance, is_zero_width, BOM

PROP = 'C09'
MOD = 'vp.props.c09'

# independent reference language of a prefix (BOM handled separately: only at file offset 0)
PREFIX_RE = re.compile(r'(?:[ \t\f]|#[^\r\n]*|\\(?:\r\n|\r|\n)|\r\n|\r|\n)*\Z')
ZERO = ('INDENT', 'DEDENT', 'ERROR_DEDENT')
TYPE_OF = {'#': 'comment', '\\': 'backslash', '\f': 'formfeed', '\n': 'newline', '\r': 'newline', BOM: 'bom'}


def setup(fam):
    import parso
    from parso.utils import parse_version_string
    return {'vi': {v: parse_version_string(v) for v in fam['versions']},
            'g': {v: parso.load_grammar(version=v) for v in fam['versions']},
            'leaf': fam.get('leaf', True)}


def check_text(ctx, fam, text, acc):
    from parso.python.tokenize import tokenize
    for v, vi in ctx['vi'].items():
        acc.evaluations += 1
        case = {'text': text, 'version': v}
        try:
            toks = list(tokenize(text, version_info=vi))
        except Exception as e:
            acc.fail(('tokenize-raises',) + core.exc_sig(e), case, repr(e))
            continue
        try:
            stream_oracle(toks, text, case, acc)
        except Exception as e:
            acc.fail(('stream-oracle-raises',) + core.exc_sig(e), case, repr(e))
        if ctx['leaf']:
            try:
                m = ctx['g'][v].parse(text)
            except Exception as e:
                acc.fail(('parse-raises',) + core.exc_sig(e), case, repr(e))
                continue
            leaf_oracle(m, text, case, acc)


def stream_oracle(toks, text, case, acc):
    names = [t.type.name for t in toks]
    if names.count('ENDMARKER') != 1 or names[-1] != 'ENDMARKER':
        return acc.fail(('endmarker',), case, repr(names))
    if ''.join(t.prefix + t.string for t in toks) != text:
        return acc.fail(('not-lossless',), case)
    # positions (walker); zero-width tokens by the placement rule
    pos = (1, 0)
    off = 0
    pending = []
    depth = 0
    nontriv = False
    for t, name in zip(toks, names):
        if name == 'INDENT':
            depth += 1
        elif name == 'DEDENT':
            depth -= 1
            if depth < 0:
                return acc.fail(('dedent-below-zero',), case)
        if name in ZERO:
            nontriv = True
            if t.string != '' or t.prefix != '':
                return acc.fail(('zero-width-token-with-text', name), case)
            pending.append(t)
            continue
        # prefix purity
        pre = t.prefix
        if off == 0 and pre.startswith(BOM):
            pre = pre[1:]
        if not PREFIX_RE.match(pre):
            return acc.fail(('impure-prefix', name), case, repr(t.prefix), extra=t.prefix)
        s = advance(pos, t.prefix, off == 0)
        if t.start_pos != s:
            return acc.fail(('start_pos', name), case, '%r: %r, true %r' % (t, t.start_pos, s))
        for z in pending:
            if z.start_pos != s:
                return acc.fail(('zero-width-placement', z.type.name), case,
                                '%r: %r, next token starts at %r' % (z, z.start_pos, s))
        pending = []
        e = advance(s, t.string, off == 0 and not t.prefix)
        off += len(t.prefix) + len(t.string)
        pos = e
    if depth != 0:
        return acc.fail(('indent-dedent-unbalanced',), case, 'depth %d at end' % depth)
    if nontriv or len(toks) > 3:
        acc.nontrivial += 1


def leaf_oracle(m, text, case, acc):
    pos = (1, 0)
    off = 0
    for l in leaves(m):
        prefix = l.prefix
        try:
            parts = list(l._split_prefix())
        except Exception as e:
            acc.fail(('split-prefix-raises',) + core.exc_sig(e), case, repr(prefix), extra=prefix)
            parts = None
        if parts is not None and is_zero_width(l):
            # no prefix, no text: only "does not fail and tiles the (empty) prefix" is meaningful
            if ''.join(p.spacing + p.value for p in parts) != '':
                acc.fail(('split-prefix-does-not-tile',), case, repr(parts), extra=prefix)
        elif parts is not None:
            r = parts_oracle(parts, prefix, pos, off == 0)
            if r:
                acc.fail(r, case, 'prefix %r parts %r' % (prefix, parts), extra=prefix)
        pos = advance(pos, prefix, off == 0)
        pos = advance(pos, l.value, off == 0 and not prefix)
        off += len(prefix) + len(l.value)


def parts_oracle(parts, prefix, pos, at_file_start):
    if ''.join(p.spacing + p.value for p in parts) != prefix:
        return ('split-prefix-does-not-tile',)
    if not parts or parts[-1].type != 'spacing':
        return ('split-prefix-last-part-not-spacing',)
    o = 0
    for i, p in enumerate(parts):
        last = i == len(parts) - 1
        if last:
            if p.spacing != '' or p.value.strip(' \t') != '':
                return ('split-prefix-spacing-part-content',)
            exp_type = 'spacing'
        else:
            if not p.value:
                return ('split-prefix-empty-part',)
            exp_type = TYPE_OF.get(p.value[0])
            if p.spacing.strip(' \t') != '':
                return ('split-prefix-spacing-content',)
            if exp_type == 'bom' and not (at_file_start and o == 0 and p.spacing == ''):
                return ('split-prefix-bom-not-at-start',)
        if p.type != exp_type:
            return ('split-prefix-part-type', str(p.type), str(exp_type))
        pos = advance(pos, p.spacing, at_file_start and o == 0)
        o += len(p.spacing)
        if p.start_pos != pos:
            return ('split-prefix-part-start_pos', p.type)
        pos = advance(pos, p.value, at_file_start and o == 0)
        o += len(p.value)
        if p.end_pos != pos:
            return ('split-prefix-part-end_pos', p.type)
    return None


# ---- known-finding rules ------------------------------------------------------------------------
def rule_ff_in_comment(case, sig, extra, match):
    """split_prefix ends a comment at a form feed (the tokenizer does not): the rest of the comment is
    either mis-split or cannot be matched at all."""
    return isinstance(extra, str) and sig[0].startswith('split-prefix') and \
        re.search(r'#[^\r\n]*\f', extra) is not None


RULES = {'c09_ff_in_comment': rule_ff_in_comment}


def recheck(case):
    return sigma.recheck_text(MOD, case)


def families(tier, seed):
    V = env.VERSIONS
    T = ['3.7', '3.8', '3.14']
    if tier == 'quick':
        fams = [sigma.fam(a, 3, V) for a in ('chars', 'ws', 'strs', 'indent', 'fws', 'blocks')]
        fams.append(sigma.fam('contstr', 4, V))
        fams += [sigma.fam(a, 4, T, name='%s=4' % a, n_lo=4) for a in ('chars', 'ws', 'strs', 'indent', 'fws')]
        fams.append(sigma.fam('chars', 5, ['3.8'], name='chars=5/stream', n_lo=5, leaf=False, ctxkey='s'))
        k = ('ws', 'strs', 'indent', 'fws')[seed % 4]
        fams.append(sigma.seed_slice(k, 5, ['3.7', '3.8'], seed, 32))
    else:
        fams = [sigma.fam(a, 4, V) for a in ('chars', 'ws', 'strs', 'indent', 'fws', 'blocks')]
        fams.append(sigma.fam('contstr', 5, V))
        fams += [sigma.fam(a, 5, ['3.7', '3.8'], name='%s=5' % a, n_lo=5) for a in ('chars', 'ws', 'strs', 'indent', 'fws')]
        fams.append(sigma.fam('chars', 6, ['3.8'], name='chars=6/stream', n_lo=6, leaf=False, ctxkey='s'))
    return fams


def run(tier, seed):
    R = core.Report(PROP, tier, seed, 'exploration')
    R.rule = ('every distinct text over each named lexeme alphabet with <= n symbols x token collections; token '
              'stream oracle + prefix splitting oracle on every leaf of the parsed tree; non-trivial = streams '
              'with more than 3 tokens or any INDENT/DEDENT/ERROR_DEDENT')
    R.assumptions = ['texts limited to the listed alphabets/lengths',
                     'prefix language reference: BOM? ([ \\t\\f] | #[^\\r\\n]* | \\\\ newline | newline)*']
    sigma.sweep(R, MOD, families(tier, seed))
    return R.finish(recheck)
