"""C10 tokenization of programs CPython tokenizes matches CPython's own tokenizer."""
import re

from .. import alphabets, core, cpyref, env
from ..treeutil import advance

PROP = 'C10'
MOD = 'vp.props.c10'
NSH = 32
SIG_KINDS = ('NAME', 'NUMBER', 'STRING', 'OP', 'NEWLINE')


def norm_cpy(toks):
    """significant tokens of CPython: (kind, string, line, col); f-string as one STRING at its start;
    the implicit empty NEWLINE at EOF dropped; INDENT/DEDENT/ENDMARKER by kind only."""
    out = []
    extra = []    # COMMENT / NL tokens, to be found in parso's prefixes
    fdepth = 0
    fstart = None
    for name, s, l, c in toks:
        if name in ('COMMENT', 'NL'):
            if fdepth == 0:
                extra.append((name, s, l, c))
            continue
        if name == 'ENCODING':
            continue
        if name == 'FSTRING_START':
            if fdepth == 0:
                fstart = (l, c)
            fdepth += 1
            continue
        if name == 'FSTRING_END':
            fdepth -= 1
            if fdepth == 0:
                out.append(('STRING', None, fstart[0], fstart[1]))
            continue
        if fdepth:
            continue
        if name == 'NEWLINE' and s == '':
            continue
        if name in ('INDENT', 'DEDENT', 'ENDMARKER'):
            out.append((name, '', None, None))
            continue
        if name in ('ASYNC', 'AWAIT'):
            name = 'NAME'
        out.append((name, s, l, c))
    return out, extra


def norm_parso(toks):
    out = []
    fdepth = 0
    for t in toks:
        n = t.type.name
        if n == 'FSTRING_START':
            if fdepth == 0:
                out.append(('STRING', None, t.start_pos[0], t.start_pos[1]))
            fdepth += 1
            continue
        if n == 'FSTRING_END':
            fdepth -= 1
            continue
        if fdepth:
            continue
        if n in ('INDENT', 'DEDENT', 'ENDMARKER'):
            out.append((n, '', None, None))
            continue
        if n in ('ERRORTOKEN', 'ERROR_DEDENT'):
            return None
        out.append((n, t.string, t.start_pos[0], t.start_pos[1]))
    return out


def strip_fstring_strings(seq, version):
    """<= 3.11 CPython reports an f-string as one STRING with its full text; parso reports
    FSTRING_START..END: compare as one STRING at its start position (string not compared)."""
    out = []
    for k, s, l, c in seq:
        m = re.match(r'(?i)([rbfu]*)[\'"]', s) if (k == 'STRING' and s is not None) else None
        if m and 'f' in m.group(1).lower():
            out.append((k, None, l, c))
        else:
            out.append((k, s, l, c))
    return out


def prefix_offsets(text, ptoks):
    """set of text offsets that lie in prefixes of parso tokens; and offset of each (line, col)"""
    pre = set()
    off = 0
    for t in ptoks:
        for i in range(len(t.prefix)):
            pre.add(off + i)
        off += len(t.prefix) + len(t.string)
    posmap = {}
    pos = (1, 0)
    i = 0
    n = len(text)
    while i <= n:
        posmap.setdefault(pos, i)
        if i == n:
            break
        step = 2 if text[i] == '\r' and i + 1 < n and text[i + 1] == '\n' else 1
        pos = advance(pos, text[i:i + step], i == 0)
        i += step
    return pre, posmap


def compare(text, version, vi, ref_result):
    """None if equal, else (signature, detail)."""
    from parso.python.tokenize import tokenize
    a, extra = norm_cpy(ref_result['toks'])
    try:
        ptoks = list(tokenize(text, version_info=vi))
    except Exception as e:
        return ('parso-tokenize-raises',) + core.exc_sig(e), repr(e), None
    b = norm_parso(ptoks)
    if b is None:
        et = [t for t in ptoks if t.type.name in ('ERRORTOKEN', 'ERROR_DEDENT')][0]
        return ('parso-error-token-on-accepted-program', et.type.name), \
            repr([(t.type.name, t.string) for t in ptoks]), (a, None)
    def nl(seq):
        # CPython >= 3.12 returns token text with \r and \r\n translated to \n (universal newlines of its input
        # layer); line ends inside multi-line string tokens are compared modulo that translation
        return [(k, (s_.replace('\r\n', '\n').replace('\r', '\n') if k == 'STRING' and s_ else s_), l, c)
                for (k, s_, l, c) in seq]
    a = nl([tuple(x) for x in a])
    b = nl(b)
    a2 = strip_fstring_strings([tuple(x) for x in a], version)
    b2 = [x if not (x[0] == 'STRING' and x[1] is not None and any(y[0] == 'STRING' and y[1] is None and y[2:] == x[2:] for y in a2)) else (x[0], None, x[2], x[3]) for x in b]
    if a2 != b2:
        k = 0
        while k < min(len(a2), len(b2)) and a2[k] == b2[k]:
            k += 1
        ca = a2[k][0] if k < len(a2) else 'end'
        cb = b2[k][0] if k < len(b2) else 'end'
        what = 'kind' if ca != cb else ('string' if a2[k][1] != b2[k][1] else 'position')
        return ('significant-tokens-differ', what, 'cpython=' + ca, 'parso=' + cb), \
            'cpython %r\nparso   %r' % (a2, b2), (a2, b2)
    if extra:
        pre, posmap = prefix_offsets(text, ptoks)
        for name, s, l, c in extra:
            o = posmap.get((l, c))
            if o is None:
                return ('comment-or-nl-position-unknown', name), repr((name, s, l, c)), None
            if text[o:o + len(s)] != s or any((o + i) not in pre for i in range(len(s))):
                return ('comment-or-nl-not-in-prefix', name), repr((name, s, l, c)), None
    return None


def shard(name, n, n_lo, versions, shard_no, nshards, slice_mod, slice_eq):
    env.setup()
    from parso.utils import parse_version_string
    acc = core.Acc()
    fnd = core.Findings(PROP)
    acc.classify = lambda sig, case, extra: fnd.match(sig, case, RULES, extra)
    texts = list(alphabets.enum(name, n, shard_no, nshards, n_lo, slice_mod, slice_eq))
    skipped = []
    for v in versions:
        ref = cpyref.get(v)
        if not ref.available():
            skipped.append(v)
            continue
        vi = parse_version_string(v)
        res = ref.call('tokenize', texts)
        ok = 0
        for t, r in zip(texts, res):
            if 'err' in r:
                continue
            ok += 1
            acc.evaluations += 1
            if len(r['toks']) > 3:
                acc.nontrivial += 1
            d = compare(t, v, vi, r)
            if d is not None:
                sig, detail, seqs = d
                acc.fail(sig, {'text': t, 'version': v}, detail, extra=(t, v, seqs, r))
        acc.counters['cpython-ok/%s' % v] += ok
        acc.counters['cpython-rejects/%s' % v] += len(texts) - ok
    for v in versions:
        cpyref.get(v).close()
    for v in skipped:
        acc.counters['interpreter-missing/%s' % v] += 1
    if shard_no == 0 and texts:
        acc.samples.append({'family': name, 'text': texts[-1]})
    return acc.strip()


def sentence_shard(version, L, shard_no, nshards, mode):
    """grammar-derived (hence mostly compilable) programs with one spelling/layout deviation"""
    env.setup()
    from parso.utils import parse_version_string
    from .. import sentences as SG
    acc = core.Acc()
    fnd = core.Findings(PROP)
    acc.classify = lambda sig, case, extra: fnd.match(sig, case, RULES, extra)
    ref = cpyref.get(version)
    if not ref.available():
        acc.counters['interpreter-missing/%s' % version] += 1
        return acc.strip()
    gen = SG.Generator(version, 'file_input')
    texts = []
    i = -1
    for rule, w, tree, toks in gen.sentences(L):
        i += 1
        if i % nshards != shard_no or not SG.plausible(toks):
            continue
        if mode == 'dev':
            texts += [SG.render(toks, **kw) for label, kw, spell in SG.deviations(toks)]
        else:
            texts.append(SG.render(toks))
    texts = list(dict.fromkeys(texts))
    vi = parse_version_string(version)
    res = ref.call('tokenize', texts)
    for t, r in zip(texts, res):
        if 'err' in r:
            acc.counters['cpython-rejects/%s' % version] += 1
            continue
        acc.evaluations += 1
        acc.nontrivial += 1
        d = compare(t, version, vi, r)
        if d is not None:
            sig, detail, seqs = d
            acc.fail(sig, {'text': t, 'version': version}, detail, extra=(t, version, seqs, r))
    ref.close()
    if shard_no == 0 and texts:
        acc.samples.append({'family': 'G2/' + version, 'text': texts[len(texts) // 2]})
    return acc.strip()


# ---- known-finding deviation rules (each re-derives parso's result from the reference under one named
# deviation; anything that is not *exactly* that deviation stays a violation) -------------------
def _retok(v, text):
    r = cpyref.get(v).call('tokenize', [text])[0]
    return r


_LINE_START = re.compile(r'(\A|\r\n|\r|\n)([ \t\f]+)')
_LEADING_BS = re.compile(r"(\A|\r\n|\r|\n)([ \t\f]*)\\(?=\r|\n)")


def t_formfeed(text):
    """form feeds of leading whitespace replaced by a space (same length, same positions)"""
    return _LINE_START.sub(lambda m: m.group(1) + m.group(2).replace('\f', ' '), text)


def t_leading_backslash(text):
    """a backslash that is the first non-blank character of a physical line replaced by a space"""
    return _LEADING_BS.sub(lambda m: m.group(1) + m.group(2) + ' ', text)


def explained_by(text, v, transforms):
    """parso's tokens on T are exactly CPython's tokens on T' = transforms(T) (and parso agrees on T and T')"""
    from parso.utils import parse_version_string
    from parso.python.tokenize import tokenize
    vi = parse_version_string(v)
    t2 = text
    for f in transforms:
        t2 = f(t2)
    if t2 == text:
        return False
    tp1 = list(tokenize(text, version_info=vi))
    tp2 = list(tokenize(t2, version_info=vi))
    if [(t.type, t.start_pos) for t in tp1] != [(t.type, t.start_pos) for t in tp2]:
        return False
    r2 = _retok(v, t2)
    if 'err' in r2:
        # CPython rejects T' for inconsistent dedent where parso reports ERROR_DEDENT on T: same deviation
        return r2['err'] == 'IndentationError' and any(t.type.name == 'ERROR_DEDENT' for t in tp1)
    return compare(t2, v, vi, r2) is None


def rule_formfeed_indent(case, sig, extra, match):
    """C10-F1: a form feed in leading whitespace counts as one column of indentation: parso's tokens on T
    equal CPython's tokens on T with the form feeds of leading whitespace replaced by a space."""
    if not extra or '\f' not in extra[0]:
        return False
    if explained_by(extra[0], extra[1], [t_formfeed]):
        return True
    # together with tabs the one-column reading cannot be emulated with spaces (tab width, C10-F8); then show that
    # the form feed is the only cause: with CPython's semantics applied by hand (leading whitespace up to the last
    # form feed of a line dropped) both tokenizers agree on everything but columns
    text, v = extra[0], extra[1]
    if not any('\t' in m.group(2) for m in _LINE_START.finditer(text)):
        return False
    from parso.utils import parse_version_string
    t2 = re.sub(r'(\A|\r\n|\r|\n)[ \t\f]*\f', lambda m: m.group(1), text)
    r2 = _retok(v, t2)
    if 'err' in r2:
        return False
    return compare(t2, v, parse_version_string(v), r2) is None


def rule_leading_backslash(case, sig, extra, match):
    """C10-F3: a backslash continuation that is the first thing on a physical line does not start a logical
    line (CPython: it does - INDENT/NEWLINE follow from it): parso's tokens on T equal CPython's tokens on T
    with that backslash replaced by a space (possibly combined with the form feed deviation)."""
    if not extra or '\\' not in extra[0]:
        return False
    return explained_by(extra[0], extra[1], [t_leading_backslash]) or \
        explained_by(extra[0], extra[1], [t_leading_backslash, t_formfeed])


def _unbalanced_closer(text, v):
    """a closing bracket occurs while no bracket is open (per parso's own token stream)"""
    from parso.utils import parse_version_string
    from parso.python.tokenize import tokenize
    depth = 0
    for t in tokenize(text, version_info=parse_version_string(v)):
        if t.type.name == 'OP':
            if t.string in '([{':
                depth += 1
            elif t.string in ')]}':
                if depth == 0:
                    return True
                depth -= 1
    return False


def rule_not_compilable(case, sig, extra, match):
    """C10-F2: leniencies of CPython's `tokenize` module on input its own compiler rejects.
    (a) any version: a closing bracket without an open one drives tokenize's bracket counter negative, so a later
        newline is still a logical NEWLINE for it;
    (b) 3.12+: the C-tokenizer based module passes texts that the pure-Python tokenizer of 3.11 rejected ('$' and
        '?' as OP, '01' as one NUMBER, '<>', a BOM inside a str as NAME, unterminated f-strings, ...).
    Predicate: compile() of that interpreter rejects the text AND ((a) holds OR (b) the version is >= 3.12 and
    CPython 3.11's tokenize does not accept the text)."""
    if not extra:
        return False
    text, v, seqs, r = extra
    if cpyref.get(v).call('compile', [text])[0] != 0:
        return False
    if _unbalanced_closer(text, v):
        return True
    if v in ('3.12', '3.13', '3.14'):
        r311 = cpyref.get('3.11')
        if r311.available():
            return 'err' in r311.call('tokenize', [text])[0]
    return False


def _rejected(extra):
    text, v, seqs, r = extra
    return cpyref.get(v).call('compile', [text])[0] == 0


def rule_leading_zero(case, sig, extra, match):
    """C10-F4: (3.12+) tokenize returns a decimal literal with a leading zero ('01', '00_1') as one NUMBER although
    the compiler rejects it; parso (like tokenize <= 3.11) splits it."""
    if not extra or extra[1] not in ('3.12', '3.13', '3.14') or not _rejected(extra):
        return False
    return any(t[0] == 'NUMBER' and re.match(r'0[0-9_]*[1-9]', t[1]) for t in extra[3].get('toks', []))


def rule_diamond(case, sig, extra, match):
    """C10-F5: (3.12+) tokenize returns '<>' as one OP (barry_as_FLUFL), parso as '<' '>'."""
    if not extra or extra[1] not in ('3.12', '3.13', '3.14') or not _rejected(extra):
        return False
    return '<>' in extra[0]


def rule_break_keyword_in_brackets(case, sig, extra, match):
    """C10-F6: by design (error recovery) a keyword that always starts a statement (def, class, import, return, ...)
    closes all open brackets / f-strings for parso's tokenizer; CPython's tokenize keeps them open.  Only on input the
    compiler rejects."""
    if not extra or not _rejected(extra):
        return False
    from parso.utils import parse_version_string
    from parso.python.tokenize import tokenize, _get_token_collection
    vi = parse_version_string(extra[1])
    brk = _get_token_collection(vi).always_break_tokens
    depth = 0
    fdepth = 0
    for t in tokenize(extra[0], version_info=vi):
        n = t.type.name
        if n == 'FSTRING_START':
            fdepth += 1
        elif n == 'FSTRING_END':
            fdepth = max(0, fdepth - 1)
        elif n == 'OP' and t.string in '([{':
            depth += 1
        elif n == 'OP' and t.string in ')]}':
            depth = max(0, depth - 1)
        elif n in ('NAME', 'OP') and t.string in brk and (depth or fdepth):
            return True
    return False


def rule_invalid_fstring(case, sig, extra, match):
    """C10-F7: parso tokenizes the inside of f-strings (also for grammars < 3.12, where CPython's tokenize returns
    one opaque STRING found by a regex); on input the compiler rejects (unterminated or garbage f-strings) the two
    models cannot agree."""
    if not extra or not _rejected(extra):
        return False
    from parso.utils import parse_version_string
    from parso.python.tokenize import tokenize
    return any(t.type.name == 'FSTRING_START' for t in tokenize(extra[0], version_info=parse_version_string(extra[1])))


def rule_tab_width(case, sig, extra, match):
    """C10-F8: parso counts a tab in indentation as one column, CPython moves to the next multiple of 8.  The two only
    disagree when indentation mixes tabs with spaces/form feeds across lines, which the compiler rejects
    (TabError / IndentationError)."""
    if not extra or not _rejected(extra):
        return False
    kinds = set()
    for m in _LINE_START.finditer(extra[0]):
        ws = m.group(2)
        if '\t' in ws:
            kinds.add('tab')
        if ' ' in ws or '\f' in ws:
            kinds.add('other')
    return kinds == {'tab', 'other'}


RULES = {'c10_tab_width': rule_tab_width, 'c10_leading_zero': rule_leading_zero, 'c10_diamond': rule_diamond,
         'c10_break_keyword_in_brackets': rule_break_keyword_in_brackets, 'c10_invalid_fstring': rule_invalid_fstring,
         'c10_formfeed_indent': rule_formfeed_indent, 'c10_leading_backslash': rule_leading_backslash,
         'c10_not_compilable': rule_not_compilable}


def recheck(case):
    env.setup()
    from parso.utils import parse_version_string
    v = case['version']
    r = cpyref.get(v).call('tokenize', [case['text']])[0]
    if 'err' in r:
        return set()
    d = compare(case['text'], v, parse_version_string(v), r)
    return {tuple(str(x) for x in d[0])} if d else set()


def run(tier, seed):
    R = core.Report(PROP, tier, seed, 'exploration')
    V = env.VERSIONS
    names = ('num', 'opchars', 'strchars', 'indent', 'ws', 'chars', 'contstr', 'ctl')
    if tier == 'quick':
        plan = [(a, 3, 0, V, None, 0) for a in names]
        plan += [(a, 4, 4, ['3.8', '3.11', '3.12', '3.14'], None, 0) for a in ('num', 'opchars', 'indent', 'contstr')]
        plan.append(('contstr', 5, 5, ['3.8'], None, 0))
        k = ('strchars', 'ws', 'chars')[seed % 3]
        plan.append((k, 4, 4, ['3.8', '3.13'], 8, seed % 8))
    else:
        plan = [(a, 4, 0, V, None, 0) for a in names]
        plan += [(a, 5, 5, ['3.8', '3.12'], None, 0) for a in ('num', 'opchars', 'indent')]
    jobs = []
    for i, (a, n, n_lo, vs, sm, se) in enumerate(plan):
        jobs += [((i, a, n, n_lo, vs, s, NSH, sm, se),) for s in range(NSH)]
    splan = []
    for v in V:
        splan.append((v, 8 if tier == 'quick' else 11, 'g2', 4))
        if tier != 'quick' or v in ('3.8', '3.13'):
            splan.append((v, 6 if tier == 'quick' else 8, 'dev', 8 if tier == 'quick' else 16))
    for j, (v, L, mode, nsh) in enumerate(splan):
        jobs += [((len(plan) + j, 'S', v, L, s, nsh, mode),) for s in range(nsh)]
    accs = [core.Acc() for _ in range(len(plan) + len(splan))]
    for i, a in core.pmap(MOD, 'shard_tagged', jobs):
        accs[i].merge(a)
    for (a, n, n_lo, vs, sm, se), acc in zip(plan, accs):
        label = '%s<=%d' % (a, n) if not n_lo else ('%s=%d' % (a, n) + ('/slice%d' % se if sm else ''))
        R.section(label, acc, alphabet=a, n=n, versions=vs, symbols=alphabets.describe(a))
    for (v, L, mode, nsh), acc in zip(splan, accs[len(plan):]):
        R.section('G2%s(%d)/%s' % ('dev' if mode == 'dev' else '', L, v), acc)
    R.rule = ('every distinct text over each named lexeme alphabet with <= n symbols, for each interpreter '
              '3.6..3.13 (3.14 judged by 3.13) the texts its tokenize module processes without error or '
              'ERRORTOKEN; evaluations = (text, version) pairs accepted by the reference; non-trivial = those '
              'with more than 3 reference tokens')
    R.assumptions = ['reference = tokenize.generate_tokens of the installed CPython interpreters, fed with '
                     'universal-newline lines', 'identifier positions compared on the alphabets only (ASCII + e-acute)']
    return R.finish(recheck)


def shard_tagged(job):
    if job[1] == 'S':
        return job[0], sentence_shard(*job[2:])
    return job[0], shard(*job[1:])
