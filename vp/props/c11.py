"""C11 tree navigation and position lookup are consistent with leaf order."""
import itertools

from .. import core, engb, env, sigma
from ..treeutil import leaves, nodes, ref_positions, text_positions, is_zero_width, has_err

PROP = 'C11'
MOD = 'vp.props.c11'
ABSENT = 'no_such_type'


def setup(fam):
    import parso
    return {v: parso.load_grammar(version=v) for v in fam['versions']}


def check_text(ctx, fam, text, acc):
    for v, g in ctx.items():
        acc.evaluations += 1
        case = {'text': text, 'version': v}
        try:
            m = g.parse(text)
        except Exception as e:
            acc.fail(('parse-raises',) + core.exc_sig(e), case, repr(e))
            continue
        try:
            oracle(m, text, case, acc)
        except Exception as e:
            acc.fail(('raises',) + core.exc_sig(e), case, repr(e))


def oracle(m, text, case, acc):
    ls = list(leaves(m))
    # --- structure
    for n in nodes(m):
        if n.get_root_node() is not m:
            return acc.fail(('root',), case, repr(n))
        try:
            ch = n.children
        except AttributeError:
            if n.get_first_leaf() is not n or n.get_last_leaf() is not n:
                return acc.fail(('leaf-first-last',), case, repr(n))
            continue
        first = n
        while hasattr(first, 'children'):
            first = first.children[0]
        last = n
        while hasattr(last, 'children'):
            last = last.children[-1]
        if n.get_first_leaf() is not first or n.get_last_leaf() is not last:
            return acc.fail(('first-last-leaf', n.type), case, repr(n))
        for j, c in enumerate(ch):
            if c.parent is not n:
                return acc.fail(('parent',), case, repr(c))
            if c.get_next_sibling() is not (ch[j + 1] if j + 1 < len(ch) else None):
                return acc.fail(('next-sibling',), case, repr(c))
            if c.get_previous_sibling() is not (ch[j - 1] if j > 0 else None):
                return acc.fail(('previous-sibling',), case, repr(c))
    if m.get_next_sibling() is not None or m.get_previous_sibling() is not None:
        return acc.fail(('root-sibling',), case)
    if m.get_next_leaf() is not None or m.get_previous_leaf() is not None:
        pass  # for a root *node* the API documents None; checked implicitly by identity below
    # --- leaf chain by identity, inverse of each other
    for i, l in enumerate(ls):
        nx = l.get_next_leaf()
        pv = l.get_previous_leaf()
        if nx is not (ls[i + 1] if i + 1 < len(ls) else None):
            return acc.fail(('next-leaf',), case, '%r -> %r' % (l, nx))
        if pv is not (ls[i - 1] if i > 0 else None):
            return acc.fail(('previous-leaf',), case, '%r -> %r' % (l, pv))
    # next/previous leaf of interior nodes: the leaf after the last / before the first leaf
    index = {id(l): i for i, l in enumerate(ls)}
    for n in nodes(m):
        if not hasattr(n, 'children') or n is m:
            continue
        last = n
        while hasattr(last, 'children'):
            last = last.children[-1]
        first = n
        while hasattr(first, 'children'):
            first = first.children[0]
        i = index[id(last)]
        j = index[id(first)]
        if n.get_next_leaf() is not (ls[i + 1] if i + 1 < len(ls) else None):
            return acc.fail(('node-next-leaf', n.type), case, repr(n))
        if n.get_previous_leaf() is not (ls[j - 1] if j > 0 else None):
            return acc.fail(('node-previous-leaf', n.type), case, repr(n))
    # --- ancestor search
    for l in ls:
        chain = []
        p = l.parent
        while p is not None:
            chain.append(p)
            p = p.parent
        types = []
        for a in chain:
            if a.type not in types:
                types.append(a.type)
        cands = [(t,) for t in types] + list(itertools.combinations(types, 2)) + \
                [(ABSENT,)] + [(t, ABSENT) for t in types[:2]] + [()]
        for ts in cands:
            exp = None
            for a in chain:
                if a.type in ts:
                    exp = a
                    break
            if l.search_ancestor(*ts) is not exp:
                return acc.fail(('search-ancestor',), case, '%r %r' % (l, ts))
    # --- position lookup, every position of the text, both modes
    ref, final, problem = ref_positions(m, text)
    ends = [ref[id(l)][2] for l in ls]
    starts = [ref[id(l)][1] for l in ls]
    for p in text_positions(text):
        exp_i = None
        for i, e in enumerate(ends):
            if e >= p:
                exp_i = i
                break
        for inc in (True, False):
            exp = None if exp_i is None else ls[exp_i]
            if exp is not None and not inc and p < starts[exp_i]:
                exp = None
            try:
                got = m.get_leaf_for_position(p, include_prefixes=inc)
            except Exception as e:
                return acc.fail(('lookup-raises', 'inc=%s' % inc) + core.exc_sig(e), case, repr(p))
            if got is not exp:
                return acc.fail(('leaf-for-position', 'inc=%s' % inc), case,
                                'pos %r: got %r, expected %r' % (p, got, exp))
    # --- positions outside the file are rejected
    outside = [(0, 0), (0, 5), (1, -1), (final[0] + 1, 0), (final[0], final[1] + 1), (-1, 0)]
    for p in outside:
        for inc in (True, False):
            try:
                got = m.get_leaf_for_position(p, include_prefixes=inc)
            except ValueError:
                continue
            except Exception as e:
                return acc.fail(('outside-raises-other',) + core.exc_sig(e), case, repr(p))
            return acc.fail(('outside-not-rejected',), case, 'pos %r -> %r' % (p, got))
    if len(ls) > 3 and (has_err(m) or any(hasattr(c, 'children') for c in m.children)):
        acc.nontrivial += 1


def recheck(case):
    return sigma.recheck_text(MOD, case)


def families(tier, seed):
    V = env.VERSIONS
    if tier == 'quick':
        fams = [sigma.fam(a, 3, V) for a in ('ws', 'blocks', 'strs', 'ops', 'stm', 'indent')]
        fams += [sigma.fam(a, 4, ['3.8', '3.14'], name='%s=4' % a, n_lo=4)
                 for a in ('ws', 'blocks', 'strs', 'indent')]
        k = ('ops', 'stm', 'chars', 'stm2')[seed % 4]
        fams.append(sigma.seed_slice(k, 4, ['3.8', '3.14'], seed, 16))
    else:
        fams = [sigma.fam(a, 4, V) for a in ('ws', 'blocks', 'strs', 'ops', 'stm', 'stm2', 'chars', 'indent')]
        fams += [sigma.fam(a, 5, ['3.6', '3.12'], name='%s=5' % a, n_lo=5) for a in ('ws', 'blocks', 'strs')]
    if tier == 'quick':
        fams += [sigma.g3('3.8', 4, slice_mod=2, slice_eq=seed % 2), sigma.g3('3.13', 4, slice_mod=8, slice_eq=seed % 8)]
    else:
        fams += [sigma.g3(v, 6) for v in ('3.8', '3.13')]
    return fams


def run(tier, seed):
    R = core.Report(PROP, tier, seed, 'exploration')
    R.rule = ('every distinct text over each named lexeme alphabet with <= n symbols x versions and every line '
              'history of E-B; every leaf, node, ancestor-type subset (size <= 2) and every (line, col) of the '
              'text x include_prefixes; non-trivial = trees with > 3 leaves and an interior or error node')
    R.assumptions = ['texts are limited to the listed alphabets/lengths/line pools',
                     'zero-width indentation error leaves sit at the start of the next text-bearing leaf (C03 rule)']
    sigma.sweep(R, MOD, families(tier, seed))
    engb.run_plan(R, MOD, tier, seed, quick=(('3.8', 4), ('3.6', 3), ('3.14', 4)),
                  thorough=(('3.8', 6), ('3.6', 5), ('3.14', 5)))
    return R.finish(recheck)
