"""C12 no false syntax errors: programs CPython accepts produce no issues."""
import re

from .. import alphabets, core, cpyref, env
from .. import sentences as SG
from ..treeutil import has_err

PROP = 'C12'
MOD = 'vp.props.c12'
NSH = 32


def judge(g, text, v, ok38, acc, fam):
    """text compiles under CPython V (caller filtered).  ok38: also compiles under 3.8."""
    acc.evaluations += 1
    case = {'text': text, 'version': v}
    try:
        m = g.parse(text)
    except Exception as e:
        acc.fail(('parse-raises',) + core.exc_sig(e), case, repr(e))
        return
    he = has_err(m)
    try:
        iss = list(g.iter_errors(m))
    except Exception as e:
        acc.fail(('iter_errors-raises',) + core.exc_sig(e), case, repr(e), extra=(text, v, m))
        return
    if len(m.children) > 2 or len(text) > 8:
        acc.nontrivial += 1
    if he:
        if ok38:
            msg = iss[0].message if iss else ''
            acc.fail(('a-error-node-on-common-syntax', msg), case, repr(text), extra=(text, v, m))
        else:
            acc.counters['outside-claim:newer-syntax-with-error-nodes'] += 1
        return
    if iss:
        acc.fail(('b-semantic-issue-on-valid-program', iss[0].message), case,
                 repr([(i.message, i.start_pos) for i in iss]), extra=(text, v, m))


def run_texts(texts, versions, acc, fam):
    import parso
    skipped = []
    need38 = cpyref.get('3.8')
    ok38_all = need38.call('compile', texts) if need38.available() else [0] * len(texts)
    for v in versions:
        ref = cpyref.get(v)
        if not ref.available():
            skipped.append(v)
            continue
        g = parso.load_grammar(version=v)
        okv = ref.call('compile', texts) if v != '3.8' else ok38_all
        n = 0
        for t, o, o38 in zip(texts, okv, ok38_all):
            if not o:
                continue
            n += 1
            judge(g, t, v, bool(o38), acc, fam)
        acc.counters['cpython-compiles/%s' % v] += n
    for v in skipped:
        acc.counters['interpreter-missing/%s' % v] += 1


def sigma_shard(name, n, n_lo, versions, shard_no, nshards, slice_mod, slice_eq):
    env.setup()
    acc = core.Acc()
    fnd = core.Findings(PROP)
    acc.classify = lambda sig, case, extra: fnd.match(sig, case, RULES, extra)
    texts = list(alphabets.enum(name, n, shard_no, nshards, n_lo, slice_mod, slice_eq))
    run_texts(texts, versions, acc, name)
    for v in set(versions) | {'3.8'}:
        cpyref.get(v).close()
    if shard_no == 0 and texts:
        acc.samples.append({'family': name, 'text': texts[-1]})
    return acc.strip()


def sentence_shard(version, L, shard_no, nshards, mode):
    """grammar-derived programs of version V (G2(L), optionally with one deviation / nested)"""
    env.setup()
    acc = core.Acc()
    fnd = core.Findings(PROP)
    acc.classify = lambda sig, case, extra: fnd.match(sig, case, RULES, extra)
    gen = SG.Generator(version, 'file_input')
    texts = []
    i = -1
    src = gen.nested(L) if mode == 'nested' else gen.sentences(L)
    for rule, w, tree, toks in src:
        i += 1
        if i % nshards != shard_no or not SG.plausible(toks):
            continue
        if mode == 'dev':
            for label, kw, spell in SG.deviations(toks):
                texts.append(SG.render(toks, **kw))
        else:
            texts.append(SG.render(toks))
    texts = list(dict.fromkeys(texts))
    run_texts(texts, [version], acc, 'g2')
    for v in (version, '3.8'):
        cpyref.get(v).close()
    if shard_no == 0 and texts:
        acc.samples.append({'family': 'G2/%s' % version, 'text': texts[len(texts) // 2]})
    return acc.strip()


# ---- G4 semantic templates ----------------------------------------------------------------------
STMTS = ['global a', 'nonlocal a', 'a = 1', 'a: int', 'a += 1', 'del a', 'return a', 'yield', 'await a',
         'import a.b', 'from . import a as c', 'from a import *', 'for a, *b in c: pass',
         'with a as (b, c.d): pass', 'try: pass\nexcept E as e: pass', '[b for b in a if (c := b)]', 'f(a := 1)',
         "'doc'", "b'doc'", 'x = lambda b=1, *c, d, **e: 0', 'def g(a, /, b, *, c=1) -> a: pass',
         'def g[T](a: T): pass', 'break', 'continue', 'pass', 'a = yield', 'print(a)', 'lambda: a',
         'class D: a = 1', 'a = [a for a in a]', 'async with a: pass', 'raise', 'x = (yield)',
         'from __future__ import annotations', 'a = f"{a!r:{a}}"', 'assert a', '*a, b = c', 'a = *b, c',
         'a = f"yield"', 'type X = int', 'match a:\n    case [b, *c]: pass', 'while a: break', 'for a in b: continue',
         'f(x := 1, y)', 'def h(): return (x async for x in y)', 'try: pass\nfinally:\n    for a in b: continue',
         'a = f"{x:{a:1}{b:2}}"', 'a = f"{x:{y:{z}}}"', "a = f\"{'\\n'.join(x)}\"", 'async = 1', 'f(**a, *b)',
         'a = [*b for b in c]', 'def k(a=(yield)): pass', 'a = (b for b in c)(d)', 'nonlocal_ = 1; del (a, b)', 'from __future__ import *',
         '[x := 1 for [a, b] in y]', '{**a}', 'a = {**b, **c}', 'print(*a, **b)', '(a, b) += 1', 'f() = 1', 'a.b: int = 1',
         'del f()', 'for f() in a: pass', 'with a as f(): pass', 'import a as b.c', 'x = yield = 1', 'a = *b']
# further statements that exercise the individual rules of errors.py near their boundaries; used alone and
# paired with the scope-sensitive statements only (to keep the product small)
EXTRA = ["a = R'\\x'", "a = bR'\\x\\u'", "a = '\\x41\\u0041\\N{DASH}'", "a = rb'\\N'", "a = 'a' 'b' f'{a}'", "a = b'\\x41' b'c'",
         'f().x: int', 'f()[0]: int = 1', 'a.b().c: int', '(a): int', 'a[0]: int', 'a.b += 1', 'a[0] += 1', 'f().x += 1',
         '*a, = b', '[*a, b] = c', 'a = [*b]', 'print(*a)', 'a = *b,', 'for *a, b in c: pass',
         'f(a, *b, c=1, **d)', 'f(*a, b)', 'f(**a, b=1)', 'f(a for a in b)', 'f(a, b for b in c) if 0 else 1',
         'del a[0], a.b', 'del (a), [b]', 'def g(*, a): pass', 'def g(a, *, b=1, **c): pass', 'x = lambda *a, b: 0',
         'class D(a, metaclass=b): pass', '@a.b(c)\ndef g(): pass', '@a[0]\ndef g(): pass', '(a := 1)', 'if (n := 1): pass',
         'from . import a', 'from .. import (a, b,)', 'import a.b as c, d', 'a = 0x1f + 1_000 + 0o7 + 1e5j',
         "a = f'{a!r}' f'{a:>{b}}'", "a = f'{a=}'", "a = f'{{}}'", 'a = f"{a[\'b\']}"', "a = f'{a:{b}.{c}}'",
         'def g():\n    yield from a', 'def g(): return (yield)', 'async def g():\n    async for a in b: pass\n    async with d: pass',
         'a = {**b}', 'a = {*b}', 'a = {b: c, **d}', 'a = {b for b in c}', 'a = {b: c for b in d}', 'a = b[1:2, ::3]', 'a = b[...]',
         'assert a, b', 'raise a from b', 'a = b < c < d', 'a = b if c else d', 'a = b @ c', 'a @= b', 'def g(a, /, b): pass',
         'x = lambda a, /: 0', 'def o():\n    a = 1\n    def i():\n        nonlocal a', 'def o(a):\n    def i():\n        nonlocal a',
         'def o(b, a=1):\n    class K:\n        def i(self):\n            nonlocal a', 'a = b = c', 'a: int = b',
         'try: pass\nexcept a: pass\nexcept: pass\nelse: pass', 'while a:\n    if b: continue\n    break\nelse: pass',
         'with a, b as c: pass', 'a = not b', 'a = (yield)', 'a = await b', 'a = [b async for b in c]', 'return', 'a = -b ** -c',
         'a, b = c', '(a, b) = c', '[a, b] = c', 'a.b = c', 'a[b] = c', 'for a.b in c: pass', 'for a[0] in c: pass',
         'x = lambda: (yield)', 'x = lambda: [(yield a) for a in b] if 0 else 1', 'with a as b.c: pass', 'with a as b[0]: pass', 'a = b.c(*d, **e)', 'global_ = 1', 'a = `b`' if False else 'a = (b)',
         # escapes in the literal parts of an f-string (outside the expression part of a replacement field)
         "a = f'{a:\\n}'", "a = f'{a:\\t<8}'", "a = f'{a!r:\\x41>{b}}'", "a = f'\\n{a}\\t'", "a = rf'\\d{a}'",
         "a = f'{a}\\N{EN DASH}'", 'a = f"""{a:\\\n}"""']
SCOPE_SENSITIVE = ['global a', 'nonlocal a', 'return a', 'yield', 'await a', 'a = 1']
HEADERS = [None, 'def f(a):', 'async def f():', 'class C:', 'def f():\n    def g():', 'for q in r:']


def g4_programs(k):
    """all programs of <= k statements from STMTS under each header (nesting depth <= 2)"""
    import itertools
    for h in HEADERS:
        bodies = []
        for n in range(1, k + 1):
            for combo in itertools.product(range(len(STMTS)), repeat=n):
                bodies.append([STMTS[i] for i in combo])
        for e in EXTRA:
            bodies.append([e])
            if k >= 2:
                for x in SCOPE_SENSITIVE:
                    bodies.append([e, x])
                    bodies.append([x, e])
        for body in bodies:
                if h is None:
                    yield '\n'.join(body) + '\n'
                else:
                    depth = h.count('\n') + 1
                    ind = '    ' * depth
                    lines = []
                    for b in body:
                        lines += [ind + x for x in b.split('\n')]
                    yield h + '\n' + '\n'.join(lines) + '\n'


def g4_shard(k, versions, shard_no, nshards):
    env.setup()
    acc = core.Acc()
    fnd = core.Findings(PROP)
    acc.classify = lambda sig, case, extra: fnd.match(sig, case, RULES, extra)
    texts = [t for i, t in enumerate(g4_programs(k)) if i % nshards == shard_no]
    run_texts(texts, versions, acc, 'g4')
    for v in set(versions) | {'3.8'}:
        cpyref.get(v).close()
    if shard_no == 0 and texts:
        acc.samples.append({'family': 'G4', 'text': texts[-1]})
    return acc.strip()


# ---- known-finding rules ------------------------------------------------------------------------
def _names_in(m, types):
    out = []
    stack = [m]
    while stack:
        n = stack.pop()
        if n.type in types:
            out.append(n)
        if hasattr(n, 'children'):
            stack.extend(n.children)
    return out


def rule_formfeed_indent(case, sig, extra, match):
    """C12-F1 (= C10-F1): form feed in leading whitespace counted as indentation; with the form feeds of
    leading whitespace removed the program gets no issue."""
    text, v, m = extra
    if '\f' not in text:
        return False
    import parso
    # CPython resets the column at a form feed: whatever precedes the last leading form feed does not count
    t2 = re.sub(r'(\A|\r\n|\r|\n)[ \t\f]*\f', lambda mm: mm.group(1), text)
    g = parso.load_grammar(version=v)
    m2 = g.parse(t2)
    return not has_err(m2) and not list(g.iter_errors(m2))


def _global_issue(sig):
    return len(sig) > 1 and re.search(r"name '.*' is (used prior to|assigned to before) (global|nonlocal) declaration"
                                      r"|annotated name '.*' can't be (global|nonlocal)|is parameter and (global|nonlocal)", sig[1])


def rule_global_lambda(case, sig, extra, match):
    """C12-F2: names used inside a lambda are counted in the enclosing scope for the global/nonlocal
    analysis."""
    text, v, m = extra
    return bool(_global_issue(sig)) and 'is used prior' in sig[1] and bool(_names_in(m, ('lambdef',)))


def rule_global_import(case, sig, extra, match):
    """C12-F3: an import (its dotted name / module name) before `global` counts as a use or assignment."""
    text, v, m = extra
    return bool(_global_issue(sig)) and bool(_names_in(m, ('import_name', 'import_from')))


def rule_global_annotation_module(case, sig, extra, match):
    """C12-F4: 'annotated name can't be global' reported at module level, where CPython allows it."""
    text, v, m = extra
    if len(sig) < 2 or "annotated name" not in sig[1]:
        return False
    # every global statement naming it is at module level
    for gs in _names_in(m, ('global_stmt',)):
        p = gs.parent
        while p is not None and p.type not in ('funcdef', 'classdef', 'lambdef'):
            p = p.parent
        if p is not None:
            return False
    return True


def rule_yield_lambda(case, sig, extra, match):
    """C12-F5: 'yield' outside function reported for a yield inside a lambda."""
    text, v, m = extra
    if len(sig) < 2 or "'yield' outside function" not in sig[1]:
        return False
    for y in _names_in(m, ('yield_expr', 'keyword')):
        if y.type == 'keyword' and y.value != 'yield':
            continue
        p = y.parent
        while p is not None and p.type not in ('funcdef', 'lambdef'):
            p = p.parent
        if p is not None and p.type == 'lambdef':
            return True
    return False


def rule_global_type_params(case, sig, extra, match):
    """C12-F8: in a PEP 695 generic `def g[T](a: T)` the extra type_params child shifts the children the
    scope analysis indexes, so g's parameters are treated as names of the enclosing scope."""
    text, v, m = extra
    return bool(_global_issue(sig)) and bool(_names_in(m, ('type_params',)))


def _has(m, *types):
    return bool(_names_in(m, types))


def rule_continue_finally_loop(case, sig, extra, match):
    """C12-F9: (<= 3.7) 'continue' inside a loop that is itself inside a finally block is allowed by CPython;
    only a continue directly in the finally block is rejected."""
    text, v, m = extra
    return len(sig) > 1 and "'continue' not supported inside 'finally' clause" in sig[1] and v in ('3.6', '3.7')


def rule_async_comprehension(case, sig, extra, match):
    """C12-F11: an asynchronous generator expression is allowed in a normal function (CPython >= 3.7)."""
    text, v, m = extra
    return len(sig) > 1 and 'asynchronous comprehension outside of an asynchronous function' in sig[1] and \
        v != '3.6' and _has(m, 'comp_for')


def rule_walrus_argument(case, sig, extra, match):
    """C12-F12: a walrus call argument `f(x := 1, y)` is taken for a keyword argument."""
    text, v, m = extra
    return len(sig) > 1 and 'positional argument follows keyword argument' in sig[1] and ':=' in text


def rule_nested_format_spec(case, sig, extra, match):
    """C12-F13: two replacement fields inside one format spec (f"{x:{a:1}{b:2}}") are not parsed (error node)."""
    text, v, m = extra
    import re as _re
    return sig[0] == 'a-error-node-on-common-syntax' and bool(_re.search(r':[^{}"]*\{[^{}]*\}[^{}"]*\{', text))


def rule_pep701(case, sig, extra, match):
    """C12-F14: (>= 3.12, PEP 701) backslashes in f-string expressions and arbitrarily nested format specs are
    valid, parso still applies the old restrictions."""
    text, v, m = extra
    return len(sig) > 1 and v in ('3.12', '3.13', '3.14') and \
        ('f-string expression part cannot include a backslash' in sig[1] or 'f-string: expressions nested too deeply' in sig[1])


def rule_global_comprehension_target(case, sig, extra, match):
    """C12-F15: the iteration variable of a comprehension lives in the comprehension's own scope; parso counts it
    as an assignment in the enclosing scope ('assigned to before global declaration')."""
    text, v, m = extra
    mm = re.search(r"name '(\w+)' is assigned to before (global|nonlocal) declaration", sig[1] if len(sig) > 1 else '')
    if not mm:
        return False
    name = mm.group(1)
    for cf in _names_in(m, ('sync_comp_for', 'comp_for')):
        sync = cf if cf.type == 'sync_comp_for' else cf.children[-1]
        if sync.type != 'sync_comp_for':
            continue
        target = sync.children[1]
        stack = [target]
        while stack:
            n = stack.pop()
            if n.type == 'name' and n.value == name:
                return True
            if hasattr(n, 'children'):
                stack.extend(n.children)
    return False


def rule_global_paren_annotation(case, sig, extra, match):
    """C12-F16: `(a): int` is a non-simple annotation target and binds nothing in CPython; parso counts it as an
    assignment for the global/nonlocal analysis."""
    text, v, m = extra
    if not _global_issue(sig):
        return False
    for es in _names_in(m, ('expr_stmt',)):
        ch = es.children
        if len(ch) == 2 and ch[1].type == 'annassign' and ch[0].type == 'atom' and ch[0].children[0] == '(':
            return True
    return False


def rule_class_generator_base(case, sig, extra, match):
    """C12-F17: a bare generator expression as the only "argument" of a class statement compiles in CPython (the
    check for unparenthesised generators applies to calls), parso reports invalid syntax."""
    text, v, m = extra
    if len(sig) < 2 or sig[1] not in ('SyntaxError: invalid syntax',
                                      'SyntaxError: Generator expression must be parenthesized if not sole argument'):
        return False
    for cd in _names_in(m, ('classdef',)):
        for c in cd.children:
            if c.type in ('argument', 'arglist') and _names_in(c, ('comp_for', 'sync_comp_for')):
                return True
    return False


_LEADING_BS_JOIN = re.compile(r'(\A|\r\n|\r|\n)([ \t\f]*)\\(?:\r\n|\r|\n)[ \t\f]*')


def rule_leading_backslash(case, sig, extra, match):
    """C12-F18 (= C10-F3): a backslash continuation that is the first thing on a line does not start a logical line
    for parso, so the indentation of the continued line counts ('unexpected indent' on a program CPython accepts).
    Predicate: with CPython's reading applied by hand (the continuation joined, the continued line's leading
    whitespace dropped) parso reports nothing."""
    text, v, m = extra
    if not _LEADING_BS_JOIN.search(text):
        return False
    import parso
    t2 = _LEADING_BS_JOIN.sub(lambda mm: mm.group(1) + mm.group(2), text)
    g = parso.load_grammar(version=v)
    m2 = g.parse(t2)
    return not has_err(m2) and not list(g.iter_errors(m2))


def rule_await_36(case, sig, extra, match):
    """C12-F6: grammar 3.6 treats async/await as keywords; CPython 3.6 still accepts them as identifiers
    (documented upstream limitation), so e.g. a call `await ()` is judged as an await expression."""
    return case.get('version') == '3.6' and len(sig) > 1 and ('await' in sig[1] or 'async' in sig[1])


def rule_debug_global(case, sig, extra, match):
    """C12-F7: from 3.7 on CPython folds __debug__ into a constant before the symbol table is built, so
    using it before `global __debug__` is accepted; parso reports 'used prior to global declaration'."""
    return case.get('version') != '3.6' and len(sig) > 1 and \
        sig[1] == "SyntaxError: name '__debug__' is used prior to global declaration"


RULES = {'c12_leading_backslash': rule_leading_backslash, 'c12_class_generator_base': rule_class_generator_base, 'c12_global_paren_annotation': rule_global_paren_annotation, 'c12_global_comprehension_target': rule_global_comprehension_target, 'c12_continue_finally_loop': rule_continue_finally_loop, 'c12_async_comprehension': rule_async_comprehension,
         'c12_walrus_argument': rule_walrus_argument, 'c12_nested_format_spec': rule_nested_format_spec,
         'c12_pep701': rule_pep701, 'c12_global_type_params': rule_global_type_params, 'c12_await_36': rule_await_36, 'c12_debug_global': rule_debug_global, 'c12_formfeed_indent': rule_formfeed_indent, 'c12_global_lambda': rule_global_lambda,
         'c12_global_import': rule_global_import, 'c12_global_annotation_module': rule_global_annotation_module,
         'c12_yield_lambda': rule_yield_lambda}


def recheck(case):
    env.setup()
    import parso
    v = case['version']
    acc = core.Acc()
    ok = cpyref.get(v).call('compile', [case['text']])[0]
    ok38 = cpyref.get('3.8').call('compile', [case['text']])[0]
    if ok:
        judge(parso.load_grammar(version=v), case['text'], v, bool(ok38), acc, 'replay')
    return {sig for (_, sig) in acc.fails}


def tagged(job):
    fn = globals()[job[1]]
    return job[0], fn(*job[2:])


def run(tier, seed):
    R = core.Report(PROP, tier, seed, 'exploration')
    V = env.VERSIONS
    jobs = []
    labels = []

    def add(label, fn, args_list):
        i = len(labels)
        labels.append(label)
        for a in args_list:
            jobs.append(((i, fn) + tuple(a),))
    if tier == 'quick':
        for a in ('ops', 'stm', 'stm2', 'sem', 'ws', 'expr', 'stmt'):
            add('%s<=3' % a, 'sigma_shard', [(a, 3, 0, V, s, NSH, None, 0) for s in range(NSH)])
        for a in ('sem', 'stmt'):
            add('%s=4' % a, 'sigma_shard', [(a, 4, 4, ['3.8', '3.13'], s, NSH, None, 0) for s in range(NSH)])
        k = ('ops', 'stm', 'stm2', 'expr')[seed % 4]
        add('%s=4/slice%d' % (k, seed % 8), 'sigma_shard', [(k, 4, 4, ['3.8', '3.13'], s, NSH, 8, seed % 8) for s in range(NSH)])
        for v in V:
            add('G2(8)/%s' % v, 'sentence_shard', [(v, 8, s, 4, 'g2') for s in range(4)])
        add('G4<=2', 'g4_shard', [(2, V, s, NSH) for s in range(NSH)])
    else:
        for a in ('ops', 'stm', 'stm2', 'sem', 'ws', 'expr', 'stmt'):
            add('%s<=4' % a, 'sigma_shard', [(a, 4, 0, V, s, NSH * 2, None, 0) for s in range(NSH * 2)])
        for v in V:
            add('G2(11)/%s' % v, 'sentence_shard', [(v, 11, s, 8, 'g2') for s in range(8)])
            add('G2dev(7)/%s' % v, 'sentence_shard', [(v, 7, s, 16, 'dev') for s in range(16)])
            add('G2nested(4)/%s' % v, 'sentence_shard', [(v, 4, s, 8, 'nested') for s in range(8)])
        add('G4<=3', 'g4_shard', [(3, ['3.8', '3.10', '3.12', '3.13', '3.14'], s, 256) for s in range(256)])
    accs = [core.Acc() for _ in labels]
    for i, a in core.pmap(MOD, 'tagged', jobs):
        accs[i].merge(a)
    for label, acc in zip(labels, accs):
        if acc.evaluations or acc.fails:
            R.section(label, acc)
    R.rule = ('texts over the listed alphabets (<= n symbols), grammar-derived programs G2 and semantic templates '
              'G4 (<= k statements under 6 scope headers), each filtered by compile() of the reference CPython for '
              'the version; evaluations = (program, version) pairs CPython compiles; non-trivial = programs with '
              'more than one statement or more than 8 characters')
    R.assumptions = ['reference = compile() of the installed CPython 3.6..3.13 (3.14 judged by 3.13)',
                     'sense (a) is checked for programs that also compile under CPython 3.8']
    return R.finish(recheck)
