"""C13 error listing is total, coherent with the tree, pure and deterministic."""
import re

from .. import core, engb, env, sigma
from ..treeutil import leaves, has_err, structure, parents_ok

PROP = 'C13'
MOD = 'vp.props.c13'


def setup(fam):
    import parso
    return {v: parso.load_grammar(version=v) for v in fam['versions']}


def outer_error_nodes(node):
    if node.type == 'error_node':
        yield node
        return
    try:
        ch = node.children
    except AttributeError:
        return
    for c in ch:
        yield from outer_error_nodes(c)


def issue_tuple(i):
    return (i.code, i.message, i.start_pos, i.end_pos)


def check_text(ctx, fam, text, acc):
    for v, g in ctx.items():
        acc.evaluations += 1
        case = {'text': text, 'version': v}
        try:
            m = g.parse(text)
        except Exception as e:
            acc.fail(('parse-raises',) + core.exc_sig(e), case, repr(e))
            continue
        oracle(g, m, text, case, acc)


def oracle(g, m, text, case, acc):
    from parso.parser import ParserSyntaxError
    st = structure(m)
    try:
        iss = list(g.iter_errors(m))
    except Exception as e:
        acc.fail(('iter_errors-raises',) + core.exc_sig(e), case, repr(e), extra=(m, text))
        return
    if structure(m) != st:
        return acc.fail(('tree-modified',), case)
    pr = parents_ok(m)
    if pr:
        return acc.fail(('tree-modified', 'parent-links'), case, pr)
    end = m.end_pos
    lines = {}
    for i in iss:
        try:
            code, msg, sp, ep = i.code, i.message, i.start_pos, i.end_pos
        except Exception as e:
            return acc.fail(('issue-attribute-raises',) + core.exc_sig(e), case, repr(e))
        if code == 901:
            if not (isinstance(msg, str) and msg.startswith('SyntaxError: ')):
                return acc.fail(('message-prefix', '901'), case, repr(msg))
        elif code == 903:
            if not (isinstance(msg, str) and msg.startswith('IndentationError: ')):
                return acc.fail(('message-prefix', '903'), case, repr(msg))
        else:
            return acc.fail(('code-not-901-903', str(code)), case, repr(msg))
        if not ((1, 0) <= tuple(sp) <= tuple(ep) <= end) or sp[1] < 0:
            return acc.fail(('issue-range-outside-file',), case, '%r: %r..%r, file ends %r' % (msg, sp, ep, end),
                            extra=(m, text))
        if sp[0] in lines:
            return acc.fail(('two-issues-on-one-line',), case, repr((lines[sp[0]], msg)))
        lines[sp[0]] = msg
    he = False
    for l in leaves(m):
        if l.type == 'error_leaf':
            he = True
            if l.start_pos[0] not in lines:
                return acc.fail(('error-leaf-line-unreported', str(l.token_type)), case, repr(l),
                                extra=(m, text, l, lines))
    ls = None
    for en in outer_error_nodes(m):
        he = True
        if ls is None:
            ls = list(leaves(m))
            idx = {id(l): k for k, l in enumerate(ls)}
        last = en
        while hasattr(last, 'children'):
            last = last.children[-1]
        k = idx[id(last)] + 1
        if k < len(ls) and ls[k].start_pos[0] not in lines:
            return acc.fail(('error-node-next-token-line-unreported',), case,
                            'error node %r, next leaf %r, issues on lines %r' % (en, ls[k], sorted(lines)),
                            extra=(m, text, en, lines))
    try:
        g.parse(text, error_recovery=False)
        strict_ok = True
    except ParserSyntaxError:
        strict_ok = False
    except Exception as e:
        strict_ok = None
    if strict_ok is False and not iss:
        return acc.fail(('strict-fails-but-no-issue',), case)
    if strict_ok is True and he:
        return acc.fail(('strict-ok-but-tree-has-errors',), case)
    try:
        iss2 = list(g.iter_errors(m))
    except Exception as e:
        return acc.fail(('second-call-raises',) + core.exc_sig(e), case, repr(e))
    if [issue_tuple(a) for a in iss] != [issue_tuple(a) for a in iss2]:
        return acc.fail(('second-call-differs',), case)
    if iss:
        acc.nontrivial += 1


# ---- known-finding rules ---------------------------------------------------------------------
def rule_ff_in_comment(case, sig, extra, match):
    """C13-F1 (= C09-F1): split_prefix fails on a comment containing a form feed; iter_errors calls it for
    indentation errors."""
    if not extra:
        return False
    text = extra[1]
    return re.search(r'#[^\r\n]*\f', text) is not None


def rule_fstring_error_node(case, sig, extra, match):
    """C13-F2: for an error node that contains an f-string start the issue is placed on the node itself
    ('f-string: invalid syntax'), not on the following token's line."""
    if not extra or len(extra) < 4 or sig[0] != 'error-node-next-token-line-unreported':
        return False
    en, lines = extra[2], extra[3]
    # the f-string issue is attached to the node, i.e. to the node's first line (where another issue of that
    # line may have won the one-issue-per-line slot)
    return any(l.type == 'fstring_start' for l in leaves(en)) and en.start_pos[0] in lines and \
        tuple(int(x) for x in case['version'].split('.')) >= (3, 9)


def rule_nested_error_leaf(case, sig, extra, match):
    """C13-F4: the error finder does not descend into error nodes, so an error leaf nested inside an error
    node gets no issue on its line."""
    if not extra or len(extra) < 4 or sig[0] != 'error-leaf-line-unreported':
        return False
    p = extra[2].parent
    while p is not None:
        if p.type == 'error_node':
            return True
        p = p.parent
    return False


RULES = {'c13_ff_in_comment': rule_ff_in_comment, 'c13_fstring_error_node': rule_fstring_error_node,
         'c13_nested_error_leaf': rule_nested_error_leaf}


def g4_shard(k, versions, shard_no, nshards):
    """semantic statement templates (valid and invalid) under scope headers, as texts for the listing oracle"""
    env.setup()
    from .c12 import g4_programs
    fam = {'name': 'G4', 'versions': versions}
    ctx = sigma._ctx(MOD, fam)
    acc = sigma.make_acc(__import__('vp.props.c13', fromlist=['x']))
    last = None
    for i, t in enumerate(g4_programs(k)):
        if i % nshards == shard_no:
            check_text(ctx, fam, t, acc)
            last = t
    if shard_no == 0 and last:
        acc.samples.append({'family': 'G4', 'text': last})
    return acc.strip()


def nesting_shard(versions, ks):
    """the nesting families of C02 (depth <= 100) as inputs of the listing oracle"""
    env.setup()
    from .c02 import nesting_texts
    fam = {'name': 'nesting', 'versions': versions}
    ctx = sigma._ctx(MOD, fam)
    acc = sigma.make_acc(__import__('vp.props.c13', fromlist=['x']))
    for k in ks:
        for shape, text in nesting_texts(k):
            check_text(ctx, fam, text, acc)
    return acc.strip()


def recheck(case):
    return sigma.recheck_text(MOD, case)


def families(tier, seed):
    V = env.VERSIONS
    if tier == 'quick':
        fams = [sigma.fam(a, 3, V) for a in ('blocks', 'strs', 'ws', 'ops', 'stm', 'stm2', 'sem', 'indent')]
        fams += [sigma.fam(a, 4, ['3.6', '3.9', '3.14'], name='%s=4' % a, n_lo=4)
                 for a in ('blocks', 'strs', 'sem', 'indent')]
        fams.append(sigma.fam('ffc', 6, ['3.8', '3.14']))
        k = ('ws', 'ops', 'stm', 'stm2')[seed % 4]
        fams.append(sigma.seed_slice(k, 4, ['3.8', '3.14'], seed, 8))
    else:
        fams = [sigma.fam(a, 4, V) for a in ('blocks', 'strs', 'ws', 'ops', 'stm', 'stm2', 'sem', 'indent')]
        fams += [sigma.fam(a, 5, ['3.7', '3.12'], name='%s=5' % a, n_lo=5) for a in ('blocks', 'strs', 'sem')]
        fams.append(sigma.fam('ffc', 7, ['3.8', '3.14']))
    if tier == 'quick':
        fams += [sigma.g3('3.8', 4), sigma.g3('3.13', 5, slice_mod=8, slice_eq=seed % 8)]
    else:
        fams += [sigma.g3(v, 7) for v in ('3.6', '3.8', '3.12', '3.14')]
    return fams


def run(tier, seed):
    R = core.Report(PROP, tier, seed, 'exploration')
    R.rule = ('every distinct text over each named lexeme alphabet with <= n symbols x versions and every line '
              'history of E-B; iter_errors on the recovered tree; non-trivial = trees with at least one issue')
    R.assumptions = ['texts limited to the listed alphabets/lengths/line pools']
    sigma.sweep(R, MOD, families(tier, seed))
    acc = core.Acc()
    k, vs = (2, ['3.6', '3.8', '3.10', '3.13']) if tier == 'quick' else (2, env.VERSIONS)
    for a in core.pmap(MOD, 'g4_shard', [(k, vs, s, 64) for s in range(64)]):
        acc.merge(a)
    R.section('G4 templates <= %d statements' % k, acc, versions=vs)
    acc = core.Acc()
    ks = list(range(1, 101, 3 if tier == 'quick' else 1)) + [98, 99, 100]
    nv = ['3.8', '3.13'] if tier == 'quick' else env.VERSIONS
    for a in core.pmap(MOD, 'nesting_shard', [(nv, [k]) for k in sorted(set(ks))]):
        acc.merge(a)
    R.section('nesting families depth <= 100', acc, versions=nv)
    engb.run_plan(R, MOD, tier, seed, quick=(('3.9', 4), ('3.6', 4), ('3.14', 4)))
    return R.finish(recheck)
