"""C14 scope / definition / parameter / import helpers agree with CPython's AST (running CPython 3.12)."""
import ast
import io
import tokenize as pytokenize
import warnings

from .. import alphabets, core, env
from .. import sentences as SG
from ..treeutil import leaves, has_err, nodes

PROP = 'C14'
MOD = 'vp.props.c14'
NSH = 32
VERSION = '3.12'
SCOPE_AST = (ast.FunctionDef, ast.AsyncFunctionDef, ast.ClassDef, ast.Lambda)
COMPOUND_FIELDS = ('body', 'orelse', 'finalbody', 'handlers', 'cases')


class Facts:
    """Facts of a program according to CPython's AST (+ stdlib tokenizer for positions the AST lacks)."""

    def __init__(self, src, tree):
        self.src = src
        self.tree = tree
        self.toks = [t for t in pytokenize.generate_tokens(io.StringIO(src).readline)]
        self.names = [t for t in self.toks if t.type == pytokenize.NAME]
        from ..treeutil import ref_split_lines
        self.lines = ref_split_lines(src)
        self.ascii = src.isascii()
        if not self.ascii:
            # AST columns are UTF-8 byte offsets: convert them all to character columns once
            for n in ast.walk(tree):
                for la, ca in (('lineno', 'col_offset'), ('end_lineno', 'end_col_offset')):
                    if getattr(n, ca, None) is not None and getattr(n, la, None) is not None:
                        line = self.lines[getattr(n, la) - 1].encode('utf-8')
                        setattr(n, ca, len(line[:getattr(n, ca)].decode('utf-8', 'replace')))

    def name_after(self, pos, kw):
        seen_kw = False
        for t in self.toks:
            if t.start < pos:
                continue
            if not seen_kw:
                if t.type == pytokenize.NAME and t.string == kw:
                    seen_kw = True
                continue
            if t.type == pytokenize.NAME:
                return t
        return None

    def def_name_pos(self, n):
        kw = 'class' if isinstance(n, ast.ClassDef) else 'def'
        t = self.name_after((n.lineno, n.col_offset), kw)
        return (t.start[0], t.start[1])

    def definitions(self):
        out = set()
        for n in ast.walk(self.tree):
            if isinstance(n, ast.Name) and isinstance(n.ctx, (ast.Store, ast.Del)):
                out.add((n.lineno, n.col_offset, n.id))
            elif isinstance(n, ast.Attribute) and isinstance(n.ctx, (ast.Store, ast.Del)):
                out.add((n.end_lineno, n.end_col_offset - len(n.attr), n.attr))
            elif isinstance(n, ast.arg):
                out.add((n.lineno, n.col_offset, n.arg))
            elif isinstance(n, (ast.FunctionDef, ast.AsyncFunctionDef, ast.ClassDef)):
                l, c = self.def_name_pos(n)
                out.add((l, c, n.name))
            elif isinstance(n, ast.alias):
                if n.name == '*':
                    continue
                if n.asname:
                    out.add((n.end_lineno, n.end_col_offset - len(n.asname), n.asname))
                else:
                    out.add((n.lineno, n.col_offset, n.name.split('.')[0]))
            elif isinstance(n, ast.ExceptHandler) and n.name:
                t = None
                seen = False
                for tk in self.toks:
                    if tk.start < (n.lineno, n.col_offset):
                        continue
                    if tk.type == pytokenize.NAME and tk.string == 'as':
                        seen = True
                        continue
                    if seen and tk.type == pytokenize.NAME:
                        t = tk
                        break
                out.add((t.start[0], t.start[1], t.string))
            elif type(n).__name__ in ('TypeVar', 'ParamSpec', 'TypeVarTuple'):
                t = next(tk for tk in self.names if tk.start >= (n.lineno, n.col_offset))
                out.add((t.start[0], t.start[1], n.name))
            elif type(n).__name__ == 'TypeAlias':
                pass  # its Name has Store context and is handled above
            elif type(n).__name__ in ('MatchAs', 'MatchStar') and getattr(n, 'name', None):
                out.add((n.end_lineno, n.end_col_offset - len(n.name), n.name))
        return out

    def import_from_module_names(self):
        """positions of the names that are neither bindings nor uses (module path of imports)"""
        return None

    @staticmethod
    def direct(scope):
        """statements whose nearest enclosing scope is `scope`, descending through compound statements"""
        if isinstance(scope, ast.Lambda):
            return []
        out = []
        work = list(scope.body)
        while work:
            st = work.pop(0)
            out.append(st)
            if isinstance(st, SCOPE_AST):
                continue
            for f in COMPOUND_FIELDS:
                for sub in getattr(st, f, []) or []:
                    if isinstance(sub, ast.stmt):
                        work.append(sub)
                    elif isinstance(sub, ast.ExceptHandler) or type(sub).__name__ == 'match_case':
                        work.extend(sub.body)
        return out

    @staticmethod
    def own_nodes(func):
        """AST nodes whose nearest enclosing function/lambda/class is `func`"""
        out = []
        if isinstance(func, ast.Lambda):
            work = [func.body]
        else:
            work = list(func.body)
        while work:
            n = work.pop()
            out.append(n)
            if isinstance(n, SCOPE_AST):
                continue
            work.extend(ast.iter_child_nodes(n))
        return out


def param_list(a):
    """ordered (name, star_count, has_default, has_annotation) from ast.arguments"""
    out = []
    pos = list(a.posonlyargs) + list(a.args)
    nd = len(a.defaults)
    for i, p in enumerate(pos):
        out.append((p.arg, 0, i >= len(pos) - nd, p.annotation is not None))
    if a.vararg:
        out.append((a.vararg.arg, 1, False, a.vararg.annotation is not None))
    for p, d in zip(a.kwonlyargs, a.kw_defaults):
        out.append((p.arg, 0, d is not None, p.annotation is not None))
    if a.kwarg:
        out.append((a.kwarg.arg, 2, False, a.kwarg.annotation is not None))
    return out


def compare(g, text, tree, m, case, acc):
    F = Facts(text, tree)
    # ---------------- definitions
    got = set()
    for l in leaves(m):
        if l.type != 'name':
            continue
        p = l.parent
        if p is not None and p.type in ('global_stmt', 'nonlocal_stmt'):
            continue      # no AST counterpart (names are plain strings there); outside the comparison
        try:
            d = l.is_definition()
            dn = l.get_definition()
        except Exception as e:
            return acc.fail(('is_definition-raises',) + core.exc_sig(e), case, repr(e), extra=(text, m))
        if d != (dn is not None):
            return acc.fail(('is_definition-vs-get_definition',), case, repr(l))
        if d:
            got.add((l.start_pos[0], l.start_pos[1], l.value))
    exp = F.definitions()
    if got != exp:
        miss = sorted(exp - got)
        extra_ = sorted(got - exp)
        # one failure per name occurrence, so that each is attributed (or not) on its own
        for item in miss:
            acc.fail(('definitions', 'missing', ''), case, 'missing %r (all missing %r extra %r)' % (item, miss, extra_),
                     extra=(text, m, [item], []))
        for item in extra_:
            acc.fail(('definitions', '', 'extra'), case, 'extra %r (all missing %r extra %r)' % (item, miss, extra_),
                     extra=(text, m, [], [item]))
        return
    # ---------------- scopes
    pscopes = {}
    for n in nodes(m):
        if n.type in ('funcdef', 'classdef'):
            pscopes[n.name.start_pos] = n
        elif n.type == 'lambdef':
            pscopes[('lambda',) + n.start_pos] = n
    ascopes = {}
    for n in ast.walk(tree):
        if isinstance(n, (ast.FunctionDef, ast.AsyncFunctionDef, ast.ClassDef)):
            ascopes[F.def_name_pos(n)] = n
        elif isinstance(n, ast.Lambda):
            ascopes[('lambda', n.lineno, n.col_offset)] = n
    if set(pscopes) != set(ascopes):
        return acc.fail(('scope-set-differs',), case, '%r vs %r' % (sorted(map(str, pscopes)), sorted(map(str, ascopes))))
    pairs = [(m, tree)] + [(pscopes[k], ascopes[k]) for k in pscopes]
    for ps, as_ in pairs:
        direct = F.direct(as_)
        e_f = sorted(F.def_name_pos(s) for s in direct if isinstance(s, (ast.FunctionDef, ast.AsyncFunctionDef)))
        e_c = sorted(F.def_name_pos(s) for s in direct if isinstance(s, ast.ClassDef))
        e_i = sorted((s.lineno, s.col_offset) for s in direct if isinstance(s, (ast.Import, ast.ImportFrom)))
        try:
            g_f = sorted(x.name.start_pos for x in ps.iter_funcdefs())
            g_c = sorted(x.name.start_pos for x in ps.iter_classdefs())
            g_i = sorted(x.start_pos for x in ps.iter_imports())
        except Exception as e:
            return acc.fail(('scope-iter-raises',) + core.exc_sig(e), case, repr(e))
        if g_f != e_f:
            return acc.fail(('iter_funcdefs',), case, 'scope %r: %r vs %r' % (ps, g_f, e_f))
        if g_c != e_c:
            return acc.fail(('iter_classdefs',), case, 'scope %r: %r vs %r' % (ps, g_c, e_c))
        if g_i != e_i:
            return acc.fail(('iter_imports',), case, 'scope %r: %r vs %r' % (ps, g_i, e_i))
    # ---------------- functions and lambdas
    for k, ps in pscopes.items():
        as_ = ascopes[k]
        if isinstance(as_, ast.ClassDef):
            continue
        try:
            gp = [(p.name.value, p.star_count, p.default is not None, p.annotation is not None)
                  for p in ps.get_params()]
        except Exception as e:
            return acc.fail(('get_params-raises',) + core.exc_sig(e), case, repr(e), extra=(text, m))
        ep = param_list(as_.args)
        if gp != ep:
            return acc.fail(('params',), case, '%r: parso %r ast %r' % (ps, gp, ep), extra=(text, m))
        own = F.own_nodes(as_)
        if not isinstance(as_, ast.Lambda):
            if (ps.annotation is not None) != (as_.returns is not None):
                return acc.fail(('return-annotation',), case, repr(ps))
            e_r = sorted((n.lineno, n.col_offset) for n in own if isinstance(n, ast.Return))
            e_x = sorted((n.lineno, n.col_offset) for n in own if isinstance(n, ast.Raise))
            g_r = sorted(x.start_pos for x in ps.iter_return_stmts())
            g_x = sorted(x.start_pos for x in ps.iter_raise_stmts())
            if g_r != e_r:
                return acc.fail(('iter_return_stmts',), case, '%r: %r vs %r' % (ps, g_r, e_r))
            if g_x != e_x:
                return acc.fail(('iter_raise_stmts',), case, '%r: %r vs %r' % (ps, g_x, e_x))
        e_gen = any(isinstance(n, (ast.Yield, ast.YieldFrom)) for n in own)
        try:
            g_gen = ps.is_generator()
        except Exception as e:
            return acc.fail(('is_generator-raises',) + core.exc_sig(e), case, repr(e))
        if g_gen != e_gen:
            return acc.fail(('is_generator', 'lambda' if isinstance(as_, ast.Lambda) else 'def'), case,
                            '%r: parso %r ast %r' % (ps, g_gen, e_gen), extra=(text, m))
    # ---------------- imports
    pimps = {n.start_pos: n for n in nodes(m) if n.type in ('import_name', 'import_from')}
    aimps = {(n.lineno, n.col_offset): n for n in ast.walk(tree) if isinstance(n, (ast.Import, ast.ImportFrom))}
    if set(pimps) != set(aimps):
        return acc.fail(('import-set-differs',), case)
    for k, pi in pimps.items():
        ai = aimps[k]
        try:
            paths = [[x.value for x in p] for p in pi.get_paths()]
            dn = [x.value for x in pi.get_defined_names()]
            lvl = pi.level
            star = bool(pi.is_star_import())
            pfn = {x.value: [y.value for y in pi.get_path_for_name(x)] for x in pi.get_defined_names()}
        except Exception as e:
            return acc.fail(('import-helper-raises',) + core.exc_sig(e), case, repr(e))
        if isinstance(ai, ast.Import):
            e_paths = [a.name.split('.') for a in ai.names]
            e_dn = [a.asname or a.name.split('.')[0] for a in ai.names]
            e_lvl = 0
            e_star = False
            e_pfn = {}
            for a in ai.names:
                e_pfn[a.asname or a.name.split('.')[0]] = a.name.split('.') if a.asname else [a.name.split('.')[0]]
        else:
            mod = ai.module.split('.') if ai.module else []
            e_star = any(a.name == '*' for a in ai.names)
            e_paths = [mod] if e_star else [mod + [a.name] for a in ai.names]
            e_dn = [] if e_star else [a.asname or a.name for a in ai.names]
            e_lvl = ai.level
            e_pfn = {} if e_star else {(a.asname or a.name): mod + [a.name] for a in ai.names}
        if paths != e_paths:
            return acc.fail(('import-paths',), case, '%r vs %r' % (paths, e_paths))
        if dn != e_dn:
            return acc.fail(('import-defined-names',), case, '%r vs %r' % (dn, e_dn))
        if lvl != e_lvl:
            return acc.fail(('import-level',), case, '%r vs %r' % (lvl, e_lvl))
        if star != e_star:
            return acc.fail(('import-star',), case)
        if pfn != e_pfn and len(set(e_dn)) == len(e_dn):
            return acc.fail(('import-path-for-name',), case, '%r vs %r' % (pfn, e_pfn))
    # ---------------- docstrings
    for ps, as_ in pairs:
        if isinstance(as_, ast.Lambda):
            continue
        try:
            dnode = ps.get_doc_node()
        except Exception as e:
            return acc.fail(('get_doc_node-raises',) + core.exc_sig(e), case, repr(e))
        adoc = ast.get_docstring(as_, clean=False)
        if adoc is None:
            if dnode is not None:
                return acc.fail(('docstring-reported-but-cpython-sees-none',), case, repr(dnode), extra=(text, m, dnode))
        else:
            first = as_.body[0]
            # written as one plain string literal?  (first statement = exactly one STRING token)
            toks = [t for t in F.toks if (first.lineno, first.col_offset) <= t.start < (first.end_lineno, first.end_col_offset)
                    and t.type not in (pytokenize.NL, pytokenize.COMMENT, pytokenize.NEWLINE)]
            single = len(toks) == 1 and toks[0].type == pytokenize.STRING and \
                toks[0].start == (first.lineno, first.col_offset)
            if single and dnode is None:
                return acc.fail(('docstring-missed',), case, repr(ps))
            if single and dnode is not None and dnode.start_pos != (first.lineno, first.col_offset):
                return acc.fail(('docstring-wrong-node',), case, repr(dnode))
    acc.nontrivial += 1


def judge(g, text, acc):
    try:
        with warnings.catch_warnings():
            warnings.simplefilter('ignore')
            tree = ast.parse(text)
    except (SyntaxError, ValueError, RecursionError, MemoryError):
        return
    try:
        m = g.parse(text)
    except Exception as e:
        acc.fail(('parse-raises',) + core.exc_sig(e), {'text': text}, repr(e))
        return
    if has_err(m):
        acc.counters['valid-for-cpython-but-error-nodes-in-parso'] += 1
        return
    acc.evaluations += 1
    case = {'text': text, 'version': VERSION}
    try:
        compare(g, text, tree, m, case, acc)
    except Exception as e:
        acc.fail(('oracle-raises',) + core.exc_sig(e), case, repr(e))


def _acc():
    acc = core.Acc()
    fnd = core.Findings(PROP)
    acc.classify = lambda sig, case, extra: fnd.match(sig, case, RULES, extra)
    return acc


def sigma_shard(name, n, n_lo, shard_no, nshards, slice_mod, slice_eq):
    parso = env.setup()
    g = parso.load_grammar(version=VERSION)
    acc = _acc()
    last = None
    for t in alphabets.enum(name, n, shard_no, nshards, n_lo, slice_mod, slice_eq):
        judge(g, t, acc)
        last = t
    if shard_no == 0 and last is not None:
        acc.samples.append({'family': name, 'text': last})
    return acc.strip()


def sentence_shard(L, shard_no, nshards, mode):
    parso = env.setup()
    g = parso.load_grammar(version=VERSION)
    acc = _acc()
    gen = SG.Generator(VERSION, 'file_input')
    src = gen.nested(L) if mode == 'nested' else gen.sentences(L)
    i = -1
    seen = set()
    for rule, w, tree, toks in src:
        i += 1
        if i % nshards != shard_no or not SG.plausible(toks):
            continue
        texts = [SG.render(toks)]
        if mode == 'dev':
            texts = [SG.render(toks, **kw) for label, kw, spell in SG.deviations(toks) if label == 'spell']
        for t in texts:
            if t not in seen:
                seen.add(t)
                judge(g, t, acc)
    if shard_no == 0 and seen:
        acc.samples.append({'family': 'G2/' + mode, 'text': sorted(seen)[len(seen) // 2]})
    return acc.strip()


def g4_shard(k, shard_no, nshards):
    parso = env.setup()
    from .c12 import g4_programs
    g = parso.load_grammar(version=VERSION)
    acc = _acc()
    last = None
    for i, t in enumerate(g4_programs(k)):
        if i % nshards == shard_no:
            judge(g, t, acc)
            last = t
    if shard_no == 0 and last:
        acc.samples.append({'family': 'G4', 'text': last})
    return acc.strip()


# ---- known-finding rules ------------------------------------------------------------------------
def _leaf_at(m, pos):
    for l in leaves(m):
        if l.start_pos == pos:
            return l
    return None


def rule_walrus(case, sig, extra, match):
    """C14-F1: a walrus target parsed by a rule other than namedexpr_test (argument, subscript, set/dict
    display, ...) is not reported as a definition."""
    if sig[:2] != ('definitions', 'missing') or sig[2] != '' or not extra:
        return False
    text, m, miss, extra_ = extra
    for (l, c, name) in miss:
        leaf = _leaf_at(m, (l, c))
        nx = leaf.get_next_leaf() if leaf is not None else None
        if nx is None or nx.value != ':=':
            return False
    return True


def rule_type_params(case, sig, extra, match):
    """C14-F3: PEP 695 type parameters bind a name but are not reported as definitions."""
    if sig[:2] != ('definitions', 'missing') or sig[2] != '' or not extra:
        return False
    text, m, miss, extra_ = extra
    for (l, c, name) in miss:
        leaf = _leaf_at(m, (l, c))
        p = leaf.parent if leaf is not None else None
        while p is not None and p.type not in ('type_params', 'suite', 'file_input'):
            p = p.parent
        if p is None or p.type != 'type_params':
            return False
    return True


def rule_bytes_docstring(case, sig, extra, match):
    """C14-F2: a bytes literal in docstring position is returned by get_doc_node()."""
    if not extra or len(extra) < 3:
        return False
    d = extra[2]
    return d.type == 'string' and 'b' in d.string_prefix.lower()


RULES = {'c14_walrus': rule_walrus, 'c14_type_params': rule_type_params, 'c14_bytes_docstring': rule_bytes_docstring}


def recheck(case):
    parso = env.setup()
    g = parso.load_grammar(version=VERSION)
    acc = core.Acc()
    judge(g, case['text'], acc)
    return {sig for (_, sig) in acc.fails}


def tagged(job):
    return job[0], globals()[job[1]](*job[2:])


def run(tier, seed):
    R = core.Report(PROP, tier, seed, 'exploration')
    jobs = []
    labels = []

    def add(label, fn, args_list):
        i = len(labels)
        labels.append(label)
        for a in args_list:
            jobs.append(((i, fn) + tuple(a),))
    if tier == 'quick':
        for a in ('bind', 'bindstmt', 'expr', 'stmt'):
            add('%s<=4' % a, 'sigma_shard', [(a, 4, 0, s, NSH * 2, None, 0) for s in range(NSH * 2)])
        k = ('bind', 'bindstmt')[seed % 2]
        add('%s=5/slice%d' % (k, seed % 64), 'sigma_shard', [(k, 5, 5, s, NSH * 2, 64, seed % 64) for s in range(NSH * 2)])
        add('G2(10)', 'sentence_shard', [(10, s, 8, 'g2') for s in range(8)])
        add('G2dev(8)', 'sentence_shard', [(8, s, 16, 'dev') for s in range(16)])
        add('G4<=2', 'g4_shard', [(2, s, NSH) for s in range(NSH)])
    else:
        for a in ('bind', 'bindstmt', 'expr', 'stmt'):
            add('%s<=4' % a, 'sigma_shard', [(a, 4, 0, s, NSH * 2, None, 0) for s in range(NSH * 2)])
        for a in ('bind', 'bindstmt'):
            add('%s=5' % a, 'sigma_shard', [(a, 5, 5, s, NSH * 8, None, 0) for s in range(NSH * 8)])
        add('G2(12)', 'sentence_shard', [(12, s, 16, 'g2') for s in range(16)])
        add('G2dev(9)', 'sentence_shard', [(9, s, 16, 'dev') for s in range(16)])
        add('G2nested(5)', 'sentence_shard', [(5, s, 16, 'nested') for s in range(16)])
        add('G4<=3', 'g4_shard', [(3, s, 256) for s in range(256)])
    accs = [core.Acc() for _ in labels]
    for i, a in core.pmap(MOD, 'tagged', jobs):
        accs[i].merge(a)
    for label, acc in zip(labels, accs):
        R.section(label, acc)
    R.rule = ('texts over binding-oriented alphabets (<= n symbols), grammar-derived programs G2 (with name '
              'spellings) and G4 statement templates, kept when ast.parse of the running CPython accepts them and '
              'parso (3.12) parses them without error nodes; evaluations = such programs; every name leaf, scope, '
              'function/lambda, import and docstring position is compared with the AST facts')
    R.assumptions = ['reference = ast and tokenize of the running CPython 3.12', 'names inside global/nonlocal '
                     'statements have no AST counterpart and are not compared']
    return R.finish(recheck)
