"""C15 source decoding (PEP 263, BOM) and line splitting follow Python's rules exactly."""
import codecs
import io
import re
import tokenize as pytokenize

from .. import alphabets, core, env
from ..treeutil import ref_split_lines

PROP = 'C15'
MOD = 'vp.props.c15'
NSH = 64
BOM = '﻿'.encode('utf-8').decode('utf-8') if False else '﻿'


def _readline_universal(b):
    """readline over lines split at \\n, \\r\\n and \\r"""
    parts = re.split(br'(\r\n|\r|\n)', b)
    lines = []
    for i in range(0, len(parts) - 1, 2):
        lines.append(parts[i] + parts[i + 1])
    if parts[-1]:
        lines.append(parts[-1])
    it = iter(lines)
    return lambda: next(it, b'')


def ref_decode(b, universal):
    """('ok', text) | ('undetermined', why) | ('undecodable',) by the running CPython's own rules"""
    rl = _readline_universal(b) if universal else io.BytesIO(b).readline
    try:
        enc, _ = pytokenize.detect_encoding(rl)
    except SyntaxError as e:
        return ('undetermined', str(e))
    try:
        if enc == 'utf-8-sig':
            return ('ok', BOM + b.decode('utf-8-sig'))
        return ('ok', b.decode(enc))
    except UnicodeDecodeError:
        return ('undecodable',)
    except LookupError:
        return ('undetermined', 'lookup')


LINE_POOL = [b'', b'#', b' \t\f# coding: latin-1', b'# -*- coding: utf-8 -*-', b'#coding=nope', b'x = "\xe9"',
             b'"coding: latin-1"', b'\xc3\xa9', b'# vim: set fileencoding=cp1252 :', b'# coding: iso8859_15',
             b'#coding=euc_jp', b'x = "\xa4"']
EOLS = [b'\n', b'\r', b'\r\n']


def line_files(k):
    """every file of <= k lines over LINE_POOL x EOLS (the last line also unterminated), with and without BOM"""
    import itertools
    for n in range(0, k + 1):
        for lines in itertools.product(LINE_POOL, repeat=n):
            for eols in itertools.product(EOLS, repeat=n):
                body = b''.join(l + e for l, e in zip(lines, eols))
                yield body
                if n and eols[-1] == b'\n':
                    yield body[:-1]            # last line unterminated


def lines263_shard(k, shard_no, nshards):
    import vp.alphabets as A
    items = [b for i, b in enumerate(line_files(k)) if i % nshards == shard_no]
    items += [codecs.BOM_UTF8 + b for b in items]
    name = '_l263_%d_%d' % (k, shard_no)
    A.BYTES_ALPHABETS[name] = items
    try:
        return bytes_shard(name, 1, 0, 1, 1, None, 0)
    finally:
        del A.BYTES_ALPHABETS[name]


def bytes_shard(name, n, shard_no, nshards, n_lo, slice_mod, slice_eq):
    parso = env.setup()
    from parso.utils import python_bytes_to_unicode
    g = parso.load_grammar(version='3.12')
    acc = core.Acc()
    fnd = core.Findings(PROP)
    acc.classify = lambda sig, case, extra: fnd.match(sig, case, RULES, extra)
    ambiguous = undet = 0
    for b in alphabets.enum(name, n, shard_no, nshards, n_lo, slice_mod, slice_eq):
        acc.evaluations += 1
        case = {'bytes': b.decode('latin-1'), 'kind': 'decode'}
        r1 = ref_decode(b, False)
        r2 = ref_decode(b, True)
        # the reference is the universal-newline reading (what CPython does for source files, and what the
        # property defines as a line); tokenize.detect_encoding over a \n-only readline differs for lone \r
        if r1 != r2:
            ambiguous += 1
        ref = r2
        try:
            got = ('ok', python_bytes_to_unicode(b))
        except Exception as e:
            got = ('raise', type(e).__name__)
        has_decl = b'coding' in b
        if ref is not None and ref[0] == 'ok':
            if has_decl or b.startswith(codecs.BOM_UTF8) or any(c >= 0x80 for c in b):
                acc.nontrivial += 1
            if got != ref:
                acc.fail(('decoded-text-differs' if got[0] == 'ok' else 'decode-raises', got[1] if got[0] == 'raise' else ''),
                         case, 'reference %r, parso %r' % (ref, got), extra=b)
                continue
            try:
                code = g.parse(b).get_code()
            except Exception as e:
                acc.fail(('parse-bytes-raises',) + core.exc_sig(e), case, repr(e), extra=b)
                continue
            if code != ref[1]:
                acc.fail(('parse-bytes-code-differs',), case, '%r != %r' % (code, ref[1]), extra=b)
        else:
            undet += 1
    acc.counters['nl-only-reading-differs-(cr-only-lines)'] += ambiguous
    acc.counters['reference-cannot-decode'] += undet
    if shard_no == 0:
        acc.samples.append({'family': name, 'bytes': repr(b'# coding: latin-1\n\xe9')})
    return acc.strip()


def lines_shard(name, n, shard_no, nshards, n_lo, slice_mod, slice_eq):
    parso = env.setup()
    from parso.utils import split_lines
    g = parso.load_grammar(version='3.12')
    acc = core.Acc()
    fnd = core.Findings(PROP)
    acc.classify = lambda sig, case, extra: fnd.match(sig, case, RULES, extra)
    last = None
    for s in alphabets.enum(name, n, shard_no, nshards, n_lo, slice_mod, slice_eq):
        acc.evaluations += 1
        last = s
        case = {'text': s, 'kind': 'split'}
        ref = ref_split_lines(s)
        try:
            k = split_lines(s, keepends=True)
            d = split_lines(s)
            d2 = split_lines(s, keepends=False)
        except Exception as e:
            acc.fail(('split_lines-raises',) + core.exc_sig(e), case, repr(e))
            continue
        if len(ref) > 1 or any(c in s for c in '\f\x0b\x1c\x1d\x1e\x85  '):
            acc.nontrivial += 1
        if k != ref:
            acc.fail(('keepends-pieces-differ',), case, '%r != %r' % (k, ref))
            continue
        stripped = [re.sub(r'(\r\n|\r|\n)\Z', '', x) for x in ref]
        if d != stripped or d2 != stripped:
            acc.fail(('pieces-differ',), case, '%r != %r' % (d, stripped))
            continue
        if len(k) < 1 or ''.join(k) != s:
            acc.fail(('join-or-length',), case)
            continue
        try:
            el = g.parse(s).end_pos[0]
        except Exception as e:
            acc.fail(('parse-raises',) + core.exc_sig(e), case, repr(e))
            continue
        if el != len(d):
            acc.fail(('line-count-vs-tree',), case, 'split %d, tree end line %d' % (len(d), el))
    if shard_no == 0 and last is not None:
        acc.samples.append({'family': name, 'text': last})
    return acc.strip()


# ---- known-finding rule ----------------------------------------------------------------------
def rule_coding_outside_comment(case, sig, extra, match):
    """C15-F1: a `coding[:=]name` anywhere in the first two lines is honoured (CPython requires it inside a
    comment, and looks at line 2 only if line 1 is blank/comment).  Predicate: parso's naive regex finds a
    declaration that CPython's rules do not accept as one."""
    if not isinstance(extra, (bytes, bytearray)):
        return False
    b = bytes(extra)
    if b.startswith(codecs.BOM_UTF8):
        return False
    first_two = re.match(br'(?:[^\r\n]*(?:\r\n|\r|\n)){0,2}', b).group(0)
    naive = re.search(br'coding[=:]\s*([-\w.]+)', first_two)
    if not naive:
        return False
    # CPython's own idea of the declaration
    lines = re.split(br'\r\n|\r|\n', b)[:2]
    cookie = re.compile(br'^[ \t\f]*#.*?coding[:=][ \t]*([-\w.]+)')
    blank = re.compile(br'^[ \t\f]*(?:[#\r\n]|$)')
    real = None
    m = cookie.match(lines[0])
    if m:
        real = m.group(1)
    elif blank.match(lines[0]) and len(lines) > 1:
        m = cookie.match(lines[1])
        if m:
            real = m.group(1)
    return real != naive.group(1)


RULES = {'c15_coding_outside_comment': rule_coding_outside_comment}


def recheck(case):
    env.setup()
    acc = core.Acc()
    if case.get('kind') == 'decode':
        import vp.alphabets as A
        b = case['bytes'].encode('latin-1')
        A.BYTES_ALPHABETS['_replay'] = [b]
        try:
            a = bytes_shard('_replay', 1, 0, 1, 1, None, 0)
        finally:
            del A.BYTES_ALPHABETS['_replay']
        return {sig for (_, sig) in a.fails}
    import vp.alphabets as A
    A.ALPHABETS['_replay'] = [case['text']]
    try:
        a = lines_shard('_replay', 1, 0, 1, 1, None, 0)
    finally:
        del A.ALPHABETS['_replay']
    return {sig for (_, sig) in a.fails}


def run(tier, seed):
    R = core.Report(PROP, tier, seed, 'exploration')
    if tier == 'quick':
        plan = [('bytes', 'bytes15', 4, 0, None, 0), ('bytes', 'bytes15', 5, 5, 32, seed % 32),
                ('lines', 'lines15', 5, 0, None, 0), ('lines', 'lines15', 6, 6, 32, seed % 32)]
    else:
        plan = [('bytes', 'bytes15', 5, 0, None, 0), ('lines', 'lines15', 6, 0, None, 0)]
    acc = core.Acc()
    k = 3 if tier == 'quick' else 4
    for a in core.pmap(MOD, 'lines263_shard', [(k, s, NSH) for s in range(NSH)]):
        acc.merge(a)
    R.section('PEP 263 line files <= %d lines' % k, acc, line_pool=[repr(x) for x in LINE_POOL], eols=[repr(x) for x in EOLS])
    for kind, name, n, n_lo, sm, se in plan:
        acc = core.Acc()
        fn = 'bytes_shard' if kind == 'bytes' else 'lines_shard'
        for a in core.pmap(MOD, fn, [(name, n, s, NSH, n_lo, sm, se) for s in range(NSH)]):
            acc.merge(a)
        label = '%s<=%d' % (name, n) if not n_lo else '%s=%d/slice%d' % (name, n, se)
        R.section(label, acc, alphabet=name, n=n, symbols=alphabets.describe(name))
    R.rule = ('every byte string over `bytes15` with <= n symbols decoded by parso and by the running CPython '
              '(tokenize.detect_encoding over universal-newline lines + bytes.decode); every string over `lines15` with <= n '
              'symbols split with both keepends values; non-trivial = byte strings with a declaration/BOM/non-'
              'ASCII byte that CPython can decode, strings with a line break or a non-breaking separator')
    R.assumptions = ['reference = tokenize.detect_encoding and codecs of the running CPython 3.12',
                     'lines are split at \\n, \\r\\n and \\r as CPython does for source files']
    return R.finish(recheck)
