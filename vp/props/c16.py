"""C16 the parse cache is transparent: never a stale or foreign tree.

Engine E-H over the real parso.cache + Grammar.parse on a private directory: breadth-first search
over operation histories; a state is rebuilt by replaying its history on a fresh world; the canonical
form (DESIGN 4/C16) decides whether a history is expanded."""
import os
import pickle
import shutil
import tempfile
from pathlib import Path

from .. import core, env

PROP = 'C16'
MOD = 'vp.props.c16'
CONTENTS = ['x = 0\n', '@a[0]\ndef f():\n  pass\n', 'class C: y\n@b.c[1]\nclass D: pass\n']
VERS = ('3.8', '3.9')
FILES = ['p1.py', 'p2.py']


class Clock:
    t = 1000

    def time(self):
        return float(Clock.t)


_G = {}


def _setup():
    if _G:
        return _G
    parso = env.setup()
    from parso import cache
    cache.time = Clock()            # virtual time seen from parso.cache
    _G['cache'] = cache
    _G['gr'] = {v: parso.load_grammar(version=v) for v in VERS}
    _G['fresh'] = {(v, ci): _G['gr'][v].parse(c).dump(indent=None) for v in VERS for ci, c in enumerate(CONTENTS)}
    _G['lines'] = {tuple(__import__('parso').split_lines(c, keepends=True)): ci for ci, c in enumerate(CONTENTS)}
    return _G


class World:
    def __init__(self, root, dirs, evict, files=None, ncontents=None):
        G = _setup()
        self.files = files or FILES
        self.ncontents = ncontents or len(CONTENTS)
        self.G = G
        self.cache = G['cache']
        self.dir = tempfile.mkdtemp(dir=root)
        self.dirs = dirs
        self.evict = evict
        Clock.t = 1000
        self.cache.parser_cache.clear()
        self.cache._CACHED_SIZE_TRIGGER = 2 if evict else 600
        self.content = {}
        for f in self.files:
            self._write(f, 0)

    def path(self, f):
        return os.path.join(self.dir, f)

    def cdir(self, d):
        return os.path.join(self.dir, d)

    def tick(self, n=1):
        Clock.t += n

    def _write(self, f, ci):
        self.tick()
        with open(self.path(f), 'w', newline='') as fh:
            fh.write(CONTENTS[ci])
        os.utime(self.path(f), (Clock.t, Clock.t))
        self.content[f] = ci

    def restamp(self):
        """files written by parso during this operation get the virtual time"""
        for d in self.dirs:
            for r, _, fs in os.walk(self.cdir(d)):
                for fn in fs:
                    p = os.path.join(r, fn)
                    if os.path.getmtime(p) > 1e8:
                        os.utime(p, (Clock.t, Clock.t))

    def op(self, o):
        """execute one operation; returns None or (kind, ok, detail)"""
        k = o[0]
        G = self.G
        if k == 'write':
            self._write(o[1], o[2])
            return None
        if k == 'touch':
            self.tick()
            os.utime(self.path(o[1]), (Clock.t, Clock.t))
            return None
        if k == 'drop':
            self.tick()
            self.cache.parser_cache.clear()
            return None
        if k == 'rm':
            self.tick()
            shutil.rmtree(self.cdir(o[1]), ignore_errors=True)
            return None
        if k == 'advance':
            self.tick(660)
            return None
        if k == 'parse':
            _, f, v, d, mode = o
            self.tick()
            kw = {}
            if mode == 'cache':
                kw = dict(cache=True)
            elif mode == 'cache+diff':
                kw = dict(cache=True, diff_cache=True)
            elif mode == 'diff':
                kw = dict(diff_cache=True)
            elif mode == 'cache+code':
                kw = dict(cache=True, code=CONTENTS[self.content[f]])
            m = G['gr'][v].parse(path=self.path(f), cache_path=self.cdir(d), **kw)
            self.restamp()
            got = m.dump(indent=None)
            ok = got == G['fresh'][(v, self.content[f])]
            return ('parse', ok, None if ok else self._describe(got, v))
        if k == 'racy':
            _, f, v, d, when, ci = o
            self.tick()
            w = self
            from parso.file_io import FileIO

            class IO(FileIO):
                n = 0

                def get_last_modified(s):
                    IO.n += 1
                    r = super().get_last_modified()
                    if when == 'A' and IO.n == 1:
                        w._write(f, ci)          # lands between the first mtime check and read()
                    return r

                def read(s):
                    data = super().read()
                    if when == 'B':
                        w._write(f, ci)          # lands between read() and the save's mtime check
                    return data
            before = self.content[f]
            m = G['gr'][v].parse(path=self.path(f), cache=True, cache_path=self.cdir(d), file_io=IO(self.path(f)))
            self.restamp()
            got = m.dump(indent=None)
            ok = got in (G['fresh'][(v, before)], G['fresh'][(v, self.content[f])])
            return ('racy', ok, None if ok else self._describe(got, v))
        raise ValueError(o)

    def _describe(self, got, v):
        for (vv, ci), d in self.G['fresh'].items():
            if d == got:
                return 'returned the tree of content %d under grammar %s' % (ci, vv)
        return 'returned an unknown tree'

    def canon(self):
        G = self.G
        fm = {f: os.path.getmtime(self.path(f)) for f in self.files}
        mem = []
        for v, g in G['gr'].items():
            for p, item in self.cache.parser_cache.get(g._hashed, {}).items():
                f = os.path.basename(str(p))
                ci = G['lines'].get(tuple(item.lines), -1)
                code = item.node.get_code()
                cc = CONTENTS.index(code) if code in CONTENTS else -1
                ent = (v, f, ci, cc, fm[f] <= item.change_time if item.change_time is not None else None)
                if self.evict:
                    ent += (item.last_used > Clock.t - 600,)
                mem.append(ent)
        disk = []
        for d in self.dirs:
            if not os.path.isdir(self.cdir(d)):
                continue
            vt = os.path.join(self.cdir(d), self.cache._VERSION_TAG)
            for v, g in G['gr'].items():
                for f in self.files:
                    import hashlib
                    fh = hashlib.sha256(str(Path(self.path(f))).encode('utf-8')).hexdigest()
                    p = os.path.join(vt, '%s-%s.pkl' % (g._hashed, fh))
                    if os.path.exists(p):
                        with open(p, 'rb') as fhd:
                            item = pickle.load(fhd)
                        ci = G['lines'].get(tuple(item.lines), -1)
                        disk.append((d, v, f, ci, fm[f] <= os.path.getmtime(p)))
        return (tuple(self.content[f] for f in self.files), tuple(sorted(mem, key=repr)), tuple(sorted(disk)))

    def close(self):
        shutil.rmtree(self.dir, ignore_errors=True)


def ops_for(cfg):
    dirs = cfg['dirs']
    ops = []
    files = cfg.get('files', FILES)
    vers = cfg.get('versions', VERS)
    for f in files:
        for ci in range(cfg.get('ncontents', len(CONTENTS))):
            ops.append(('write', f, ci))
        ops.append(('touch', f))
        for v in vers:
            for d in dirs:
                for mode in cfg['modes']:
                    ops.append(('parse', f, v, d, mode))
    for when in ('A', 'B'):
        for ci in range(1, cfg.get('ncontents', len(CONTENTS))):
            for v in cfg.get('racy_versions', VERS[:1]):
                ops.append(('racy', 'p1.py', v, dirs[0], when, ci))
    ops.append(('drop',))
    for d in dirs:
        ops.append(('rm', d))
    if cfg.get('evict'):
        ops.append(('advance',))
    return ops


def replay(root, cfg, h):
    w = World(root, cfg['dirs'], cfg.get('evict', False), cfg.get('files'), cfg.get('ncontents'))
    last = None
    try:
        for o in h:
            if o[0] == 'write' and w.content[o[1]] == o[2]:
                return None, None          # a write that changes nothing is not an operation of the model
            last = w.op(o)
        return w.canon(), last
    finally:
        w.close()
        _G['cache'].parser_cache.clear()


def classify_history(h):
    """C16-F1 predicate: the failing parse of (f, v) is preceded, since the last complete write to f, only by
    a write that landed between read() and the save's get_last_modified() of the same (path, grammar)."""
    o = h[-1]
    if o[0] not in ('parse', 'racy'):
        return False
    f, v = o[1], o[2]
    for prev in reversed(h[:-1]):
        if prev[0] == 'write' and prev[1] == f:
            return False                   # a complete write came later than any in-flight write
        if prev[0] == 'racy' and prev[1] == f:
            return prev[4] == 'B' and prev[2] == v
    return False


def expand(root, cfg, h):
    """all one-operation extensions of history h: (history, canonical state, verdict)"""
    env.setup()
    out = []
    for o in ops_for(cfg):
        h2 = h + (o,)
        try:
            c, last = replay(root, cfg, h2)
        except Exception as e:
            out.append((h2, None, ('raises',) + core.exc_sig(e), repr(e)))
            continue
        if c is None:
            continue
        verdict = None
        detail = None
        if last and not last[1]:
            verdict = ('stale-or-foreign-tree', last[0])
            detail = last[2]
        out.append((h2, c, verdict, detail))
    return out


def search(R, root, cfg, name, depth):
    fnd = core.Findings(PROP)
    acc = core.Acc()
    acc.classify = lambda sig, case, extra: fnd.match(sig, case, RULES, extra)
    c0, _ = replay(root, cfg, ())
    seen = {c0}
    frontier = [()]
    trans = 0
    levels = []
    exhausted = False
    for d in range(1, depth + 1):
        cand = {}
        for out in core.pmap(MOD, 'expand', [(root, cfg, h) for h in frontier], chunksize=2):
            for h2, c, verdict, detail in out:
                trans += 1
                acc.evaluations += 1
                if h2[-1][0] in ('parse', 'racy'):
                    acc.nontrivial += 1
                if verdict is not None:
                    acc.fail(verdict, {'history': [list(x) for x in h2], 'config': name}, detail or '', extra=h2)
                if c is not None and c not in seen:
                    if c not in cand or h2 < cand[c]:
                        cand[c] = h2
        seen.update(cand)
        frontier = sorted(cand.values())
        levels.append({'depth': d, 'states': len(seen), 'frontier': len(frontier), 'transitions': trans})
        if not frontier:
            exhausted = True
            break
    if frontier:
        acc.samples.append({'family': name, 'history': [list(x) for x in frontier[len(frontier) // 2]]})
    else:
        acc.samples.append({'family': name, 'history': [['write', 'p1.py', 1], ['parse', 'p1.py', '3.8', 'd1', 'cache']]})
    acc.classify = None
    R.section(name, acc, depth=depth, states=len(seen), transitions=trans, fixpoint_reached=exhausted,
              operations=len(ops_for(cfg)), levels=levels)
    return len(seen), trans, exhausted


def rule_inflight_write(case, sig, extra, match):
    return classify_history(tuple(tuple(x) for x in case['history']))


RULES = {'c16_inflight_write': rule_inflight_write}

CONFIGS = {
    'one-dir': dict(dirs=['d1'], modes=['cache', 'cache+diff', 'diff', 'none', 'cache+code']),
    'two-dirs': dict(dirs=['d1', 'd2'], modes=['cache', 'cache+diff']),
    'evict': dict(dirs=['d1'], modes=['cache', 'cache+diff'], evict=True),
    'racy-both-grammars': dict(dirs=['d1'], modes=['cache', 'none'], racy_versions=VERS),
    # a world small enough for the search to reach its fixpoint: every history of any length is covered
    'tiny-fixpoint': dict(dirs=['d1'], modes=['cache', 'cache+diff'], files=['p1.py'], versions=VERS[:1], ncontents=2),
    'small-fixpoint': dict(dirs=['d1'], modes=['cache'], files=FILES, versions=VERS[:1], ncontents=2),
    'medium-fixpoint': dict(dirs=['d1'], modes=['cache', 'cache+diff'], files=FILES, versions=VERS, ncontents=2, racy_versions=VERS),
    'tiny2-fixpoint': dict(dirs=['d1'], modes=['cache'], files=['p1.py'], versions=VERS, ncontents=2, racy_versions=VERS),
}


def recheck(case):
    env.setup()
    root = env.scratch_root()
    try:
        cfg = CONFIGS[case['config']]
        h = tuple(tuple(x) for x in case['history'])
        c, last = replay(root, cfg, h)
        if last and not last[1]:
            return {('stale-or-foreign-tree', last[0])}
        return set()
    finally:
        shutil.rmtree(root, ignore_errors=True)


def run(tier, seed):
    R = core.Report(PROP, tier, seed, 'model_checking')
    root = env.scratch_root()
    try:
        if tier == 'quick':
            plan = [('tiny-fixpoint', 30), ('tiny2-fixpoint', 30), ('small-fixpoint', 30), ('one-dir', 5), ('two-dirs', 4), ('evict', 5), ('racy-both-grammars', 4)]
        else:
            plan = [('tiny-fixpoint', 40), ('tiny2-fixpoint', 40), ('small-fixpoint', 40), ('medium-fixpoint', 14), ('one-dir', 6), ('two-dirs', 5), ('evict', 6), ('racy-both-grammars', 5)]
        S = T = 0
        allfix = True
        for name, depth in plan:
            s, t, fx = search(R, root, CONFIGS[name], name, depth)
            S += s
            T += t
            allfix = allfix and fx
        R.coverage.update(states=S, transitions=T, traces_validated_against_impl=T)
        R.exhaustive = True
        R.coverage['fixpoint_reached_in_all_configurations'] = allfix
    finally:
        core.close_pool()
        shutil.rmtree(root, ignore_errors=True)
    R.coverage['fixpoints'] = [sec['name'] for sec in R.sections if sec.get('fixpoint_reached')]
    R.rule = ('BFS over histories of {write, touch, parse (cache / cache+diff_cache / diff_cache / none / with code), '
              'parse with an in-flight write at two points, drop memory, remove cache dir, advance 11 min} on 2 files x '
              '3 contents x 2 grammars x 1-2 cache directories with a virtual clock; state = canonical form of files, '
              'memory entries and disk entries (one validity bit per entry); every transition executes parso on a '
              'private directory; histories are complete up to the stated depth per configuration, and the *-fixpoint '
              'worlds (1-2 files, 2 contents, 1-2 grammars) are explored until no new state appears: every history '
              'of any length over their operations is covered')
    R.assumptions = ['timestamps matter only through the three comparisons in parso.cache (DESIGN 4/C16)',
                     'one process at a time; in-flight writes at FileIO call boundaries']
    return R.finish(recheck)
