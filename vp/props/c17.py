"""C17 a torn or corrupt cache file is a cache miss, never a failure (engine E-F: fault enumeration)."""
import errno
import os
import pickle
import shutil
import tempfile
import warnings
from pathlib import Path

from .. import core, env

PROP = 'C17'
MOD = 'vp.props.c17'
MODULES = ['x = 1\n',
           'def f(a, b=1):\n    """doc"""\n    return a + b\n\n\nclass C:\n    x = f(1)\n',
           ''.join('def f%d(a):\n    if a:\n        return [a, %d]\n    return {"k": a}\n\n' % (i, i) for i in range(6))]
VERS = ('3.8', '3.13')
DAY = 86400


class Injected(Exception):
    pass


def _exc(kind):
    if kind == 'ENOSPC':
        return OSError(errno.ENOSPC, 'No space left on device')
    if kind == 'EIO':
        return OSError(errno.EIO, 'Input/output error')
    if kind == 'EPERM':
        return PermissionError(errno.EACCES, 'Permission denied')
    raise ValueError(kind)


class Faults:
    """Counts (and optionally fails) the file-system calls made from parso.cache."""

    def __init__(self, cache):
        self.cache = cache
        self.log = []
        self.fail_at = None
        self.exc = None
        self.write_limit = None
        self.installed = False

    def point(self, name):
        self.log.append(name)
        if self.fail_at is not None and len(self.log) - 1 == self.fail_at:
            raise _exc(self.exc)

    def install(self):
        F = self
        cache = self.cache
        real_open = open
        real_os = os
        real_pickle = pickle

        class W:
            def __init__(s, f):
                s.f = f
                s.n = 0

            def write(s, b):
                if F.write_limit is not None and s.n + len(b) > F.write_limit:
                    s.f.write(bytes(b)[:max(0, F.write_limit - s.n)])
                    s.f.flush()
                    s.n = F.write_limit
                    raise _exc(F.exc or 'ENOSPC')
                s.n += len(b)
                return s.f.write(b)

            def __enter__(s):
                return s

            def __exit__(s, *a):
                s.f.close()
                return False

            def __getattr__(s, k):
                return getattr(s.f, k)

        def fopen(path, mode='r', *a, **kw):
            F.point('open:' + mode)
            f = real_open(path, mode, *a, **kw)
            if 'w' in mode and F.write_limit is not None:
                return W(f)
            return f

        class OsPath:
            def __getattr__(s, k):
                return getattr(real_os.path, k)

            def getmtime(s, p):
                F.point('os.path.getmtime')
                return real_os.path.getmtime(p)

        class Os:
            path = OsPath()

            def __getattr__(s, k):
                return getattr(real_os, k)

            def makedirs(s, *a, **kw):
                F.point('os.makedirs')
                return real_os.makedirs(*a, **kw)

            def utime(s, *a, **kw):
                F.point('os.utime')
                return real_os.utime(*a, **kw)

            def scandir(s, *a, **kw):
                F.point('os.scandir')
                return real_os.scandir(*a, **kw)

            def listdir(s, *a, **kw):
                F.point('os.listdir')
                return real_os.listdir(*a, **kw)

            def remove(s, *a, **kw):
                F.point('os.remove')
                return real_os.remove(*a, **kw)

        class Pk:
            def __getattr__(s, k):
                return getattr(real_pickle, k)

            def dump(s, *a, **kw):
                F.point('pickle.dump')
                return real_pickle.dump(*a, **kw)

            def load(s, *a, **kw):
                F.point('pickle.load')
                return real_pickle.load(*a, **kw)
        cache.open = fopen
        cache.os = Os()
        cache.pickle = Pk()
        self.installed = True

    def uninstall(self):
        cache = self.cache
        if 'open' in vars(cache):
            del cache.open
        cache.os = os
        cache.pickle = pickle
        self.installed = False

    def reset(self, fail_at=None, exc=None, write_limit=None):
        self.log = []
        self.fail_at = fail_at
        self.exc = exc
        self.write_limit = write_limit


class World:
    def __init__(self, root, mod_no, version):
        parso = env.setup()
        from parso import cache
        self.cache = cache
        self.g = parso.load_grammar(version=version)
        self.version = version
        self.dir = tempfile.mkdtemp(dir=root)
        self.src = os.path.join(self.dir, 'm.py')
        self.cdir = os.path.join(self.dir, 'cache')
        self.text = MODULES[mod_no]
        with open(self.src, 'w', newline='') as f:
            f.write(self.text)
        old = 1_600_000_000
        os.utime(self.src, (old, old))      # the source is older than any cache file
        self.fresh = self.g.parse(self.text).dump(indent=None)
        cache.parser_cache.clear()

    def parse(self):
        return self.g.parse(path=self.src, cache=True, cache_path=self.cdir)

    def pickle_path(self):
        return self.cache._get_hashed_path(self.g._hashed, Path(self.src), cache_path=Path(self.cdir))

    def restart(self):
        self.cache.parser_cache.clear()

    def close(self):
        self.cache.parser_cache.clear()
        shutil.rmtree(self.dir, ignore_errors=True)


class Hang(Exception):
    pass


def _alarm(signum, frame):
    raise Hang('no result within 60 s')


def after(w, case, acc, extra=None):
    """fault-free parses after the fault: succeed, agree with a fresh parse, and repair the entry"""
    import signal
    signal.signal(signal.SIGALRM, _alarm)
    signal.alarm(60)          # a corrupted pickle must not hang the loader either
    try:
        return _after(w, case, acc, extra)
    finally:
        signal.alarm(0)


def _after(w, case, acc, extra=None):
    w.restart()
    for i in (1, 2):
        try:
            with warnings.catch_warnings():
                warnings.simplefilter('ignore')
                m = w.parse()
        except BaseException as e:
            if isinstance(e, (KeyboardInterrupt, SystemExit)):
                raise
            acc.fail(('parse-after-fault-raises', 'parse%d' % i) + core.exc_sig(e), case, repr(e), extra=extra)
            return False
        try:
            same = m.dump(indent=None) == w.fresh
        except Exception:
            same = False          # a tree that cannot even be dumped is not the tree of the file
        if not same:
            acc.fail(('wrong-tree-after-fault', 'parse%d' % i), case, '', extra=extra)
            return False
    # repaired: the disk entry is loadable again and holds the current content
    w.restart()
    try:
        p = w.pickle_path()
        with open(p, 'rb') as f:
            item = pickle.load(f)
        ok = ''.join(item.lines) == w.text and item.node.dump(indent=None) == w.fresh
    except Exception as e:
        acc.fail(('entry-not-repaired',) + (type(e).__name__,), case, repr(e), extra=extra)
        return False
    if not ok:
        acc.fail(('entry-not-repaired', 'content'), case, '', extra=extra)
        return False
    return True


def _acc():
    acc = core.Acc()
    fnd = core.Findings(PROP)
    acc.classify = lambda sig, case, extra: fnd.match(sig, case, RULES, extra)
    return acc


def _limit_memory():
    try:
        import resource
        resource.setrlimit(resource.RLIMIT_AS, (6 << 30, 6 << 30))
    except Exception:
        pass


def leftover_shard(root, mod_no, version, shard_no, nshards, flip_step):
    """every truncation, byte flips, zero blocks and replacements of the pickle of one module"""
    env.setup()
    _limit_memory()
    acc = _acc()
    w = World(root, mod_no, version)
    try:
        w.parse()
        p = w.pickle_path()
        good = open(p, 'rb').read()
        n = len(good)
        other = World(root, (mod_no + 1) % len(MODULES), version)
        other.parse()
        other_item = open(other.pickle_path(), 'rb').read()
        other.close()
        cases = [('trunc', i) for i in range(n)]
        cases += [('flip', i) for i in range(0, n, flip_step)]
        cases += [('zero16', b) for b in range(0, n, 16)]
        cases += [('replace', x) for x in ('ff1k', 'pickle42', 'pickledict', 'other-entry', 'text', 'tail-garbage')]
        cases += [('env', x) for x in ('tmp-leftover', 'version-dir-missing', 'cache-dir-missing', 'pickle-missing')]
        for idx, (kind, arg) in enumerate(cases):
            if idx % nshards != shard_no:
                continue
            acc.evaluations += 1
            acc.nontrivial += 1
            case = {'kind': kind, 'arg': arg, 'module': mod_no, 'version': version}
            data = None
            if kind == 'trunc':
                data = good[:arg]
            elif kind == 'flip':
                data = good[:arg] + bytes([good[arg] ^ 0xFF]) + good[arg + 1:]
            elif kind == 'zero16':
                data = good[:arg] + b'\0' * len(good[arg:arg + 16]) + good[arg + 16:]
            elif kind == 'replace':
                data = {'ff1k': b'\xff' * 1024, 'pickle42': pickle.dumps(42), 'pickledict': pickle.dumps({}),
                        'other-entry': other_item, 'text': b'not a pickle\n', 'tail-garbage': good + b'\xff\x00garbage'}[arg]
            if data is not None:
                with open(p, 'wb') as f:
                    f.write(data)
            else:
                with open(p, 'wb') as f:
                    f.write(good)
                if arg == 'tmp-leftover':
                    with open(p + '.tmp', 'wb') as f:
                        f.write(good[:n // 2])
                    with open(os.path.join(os.path.dirname(p), 'tmpabcd'), 'wb') as f:
                        f.write(b'')
                elif arg == 'version-dir-missing':
                    shutil.rmtree(os.path.dirname(p))
                elif arg == 'cache-dir-missing':
                    shutil.rmtree(w.cdir)
                elif arg == 'pickle-missing':
                    os.remove(p)
            silent = None
            if data is not None and kind in ('flip', 'zero16', 'replace'):
                # does the corrupted file still unpickle to a cache item?  (needed by the C17-F2 predicate)
                try:
                    it = pickle.loads(data)
                    silent = type(it).__name__ == '_NodeCacheItem'
                except BaseException:
                    silent = False
            after(w, case, acc, extra={'silent': silent})
            if kind == 'env' and arg == 'tmp-leftover':
                for x in (p + '.tmp', os.path.join(os.path.dirname(p), 'tmpabcd')):
                    if os.path.exists(x):
                        os.remove(x)
        if shard_no == 0:
            acc.samples.append({'family': 'leftover', 'module': mod_no, 'pickle_bytes': n, 'case': ['trunc', n // 2]})
        return acc.strip(), n
    finally:
        w.close()


def crash_shard(root, mod_no, version, phase, exc):
    """the k-th file-system call of a save / load / save-with-cleanup fails, for every k; also every torn write"""
    env.setup()
    _limit_memory()
    acc = _acc()
    w = World(root, mod_no, version)
    F = Faults(w.cache)
    F.install()
    ncalls = 0
    try:
        def prepare():
            shutil.rmtree(w.cdir, ignore_errors=True)
            w.restart()
            if phase in ('load', 'resave'):
                F.reset()
                w.parse()
                w.restart()
            if phase == 'resave':
                # the source changes: the next parse finds an outdated entry and saves again
                with open(w.src, 'w', newline='') as f:
                    f.write(w.text)
                import time
                t = time.time() + 5
                os.utime(w.src, (t, t))
            if phase == 'cleanup':
                # an old lock file: this save also runs the inactive-cache clean-up
                os.makedirs(w.cdir, exist_ok=True)
                lock = os.path.join(w.cdir, 'PARSO-CACHE-LOCK')
                open(lock, 'w').close()
                import time
                t = time.time() - 2 * DAY
                os.utime(lock, (t, t))
        prepare()
        F.reset()
        with warnings.catch_warnings():
            warnings.simplefilter('ignore')
            w.parse()
        calls = list(F.log)
        ncalls = len(calls)
        for k in range(ncalls):
            acc.evaluations += 1
            acc.nontrivial += 1
            case = {'kind': 'crash', 'phase': phase, 'call': k, 'call_name': calls[k], 'exc': exc,
                    'module': mod_no, 'version': version}
            prepare()
            F.reset(fail_at=k, exc=exc)
            faulting_ok = True
            try:
                with warnings.catch_warnings():
                    warnings.simplefilter('ignore')
                    m = w.parse()
                if m.dump(indent=None) != w.fresh:
                    acc.fail(('wrong-tree-from-faulting-call',), case, '')
            except OSError as e:
                faulting_ok = False
                # the statement only promises success of the faulting call for missing/read-only directories
                if exc == 'EPERM' and calls[k] in ('os.makedirs', 'open:wb'):
                    acc.fail(('parse-fails-on-read-only-cache',) + core.exc_sig(e), case, repr(e))
            except Exception as e:
                acc.fail(('faulting-call-raises-non-oserror',) + core.exc_sig(e), case, repr(e))
            F.reset()
            if phase == 'resave':
                os.utime(w.src, (1_600_000_000, 1_600_000_000))
            after(w, case, acc)
        # torn writes: the writer fails after j bytes, for every j
        if phase == 'save':
            prepare()
            F.reset()
            w.parse()
            size = os.path.getsize(w.pickle_path())
            step = 1
            for j in range(0, size, step):
                acc.evaluations += 1
                acc.nontrivial += 1
                case = {'kind': 'torn-write', 'bytes': j, 'exc': exc, 'module': mod_no, 'version': version}
                prepare()
                F.reset(write_limit=j, exc=exc)
                try:
                    with warnings.catch_warnings():
                        warnings.simplefilter('ignore')
                        w.parse()
                except OSError:
                    pass
                except Exception as e:
                    acc.fail(('faulting-call-raises-non-oserror',) + core.exc_sig(e), case, repr(e))
                F.reset()
                after(w, case, acc)
        acc.samples.append({'family': 'crash/' + phase, 'calls': calls})
        return acc.strip(), ncalls
    finally:
        F.uninstall()
        w.close()


def maint_shard(root, version):
    """clean-up never deletes an entry in use: atime age x lock state x which entry is saved"""
    env.setup()
    import time
    acc = _acc()
    n = 0
    for age_other, age_saved in ((0, 0), (29 * DAY, 0), (31 * DAY, 0), (0, 31 * DAY), (31 * DAY, 31 * DAY)):
        for lock in ('absent', '1h', '2d'):
            for saved in (0, 1):
                n += 1
                acc.evaluations += 1
                acc.nontrivial += 1
                case = {'kind': 'maint', 'age_other_days': age_other // DAY, 'age_saved_days': age_saved // DAY,
                        'lock': lock, 'saved': saved, 'version': version}
                ws = [World(root, i, version) for i in (0, 1)]
                try:
                    # both modules share one cache directory
                    for w in ws:
                        w.cdir = ws[0].cdir
                    for w in ws:
                        w.parse()
                        w.restart()
                    now = time.time()
                    other = ws[1 - saved]
                    po = other.pickle_path()
                    os.utime(po, (now - age_other, os.path.getmtime(po)))
                    lockp = os.path.join(ws[0].cdir, 'PARSO-CACHE-LOCK')
                    if lock == 'absent':
                        if os.path.exists(lockp):
                            os.remove(lockp)
                    else:
                        open(lockp, 'a').close()
                        t = now - (3600 if lock == '1h' else 2 * DAY)
                        os.utime(lockp, (t, t))
                    # the saved module changes -> it is parsed and saved again (this runs the maintenance)
                    s = ws[saved]
                    ps = s.pickle_path()
                    os.utime(ps, (now - age_saved, os.path.getmtime(ps)))    # last *read* long ago
                    loaded = lock != '1h' and age_other == 0
                    if loaded:
                        # the other entry was written 40 days ago, and is loaded from disk (= used) right now
                        os.utime(po, (now - 2 * DAY, now - 40 * DAY))
                        os.utime(other.src, (now - 50 * DAY, now - 50 * DAY))
                        other.restart()
                        other.parse()
                        other.restart()
                    t = now + 5
                    os.utime(s.src, (t, t))
                    try:
                        s.parse()
                    except Exception as e:
                        acc.fail(('save-with-maintenance-raises',) + core.exc_sig(e), case, repr(e))
                        continue
                    os.utime(s.src, (1_600_000_000, 1_600_000_000))
                    if not os.path.exists(s.pickle_path()):
                        acc.fail(('entry-just-saved-deleted',), case, '')
                    if age_other < 30 * DAY and not os.path.exists(po):
                        acc.fail(('entry-in-use-deleted',), case, '')
                    os.utime(other.src, (1_600_000_000, 1_600_000_000))
                    for w in ws:
                        w.restart()
                        try:
                            if w.parse().dump(indent=None) != w.fresh:
                                acc.fail(('wrong-tree-after-maintenance',), case, '')
                        except Exception as e:
                            acc.fail(('parse-after-maintenance-raises',) + core.exc_sig(e), case, repr(e))
                finally:
                    for w in ws:
                        w.close()
    acc.samples.append({'family': 'maintenance', 'case': {'age_other_days': 31, 'lock': '2d', 'saved': 0}})
    return acc.strip(), n


def rule_loadable_corruption(case, sig, extra, match):
    """C17-F2: the cache has no integrity check: a corrupted file that still unpickles to a cache item (e.g. one
    flipped byte inside a string or a position, or the valid entry of another module copied over it) is served."""
    return bool(extra) and extra.get('silent') is True and sig[0] in ('wrong-tree-after-fault', 'entry-not-repaired')


RULES = {'c17_loadable_corruption': rule_loadable_corruption}


def recheck(case):
    try:
        return _recheck(case)
    except Exception as e:
        if not _through_parso(e):
            raise
        # the shard that contains the case no longer gets as far as the case
        return {tuple(str(x) for x in ('fault-free-step-raises',) + core.exc_sig(e))}


def _recheck(case):
    env.setup()
    root = env.scratch_root()
    try:
        if case['kind'] == 'fault-free-step':
            try:
                globals()[case['fn']](root, *case['args'])
            except Exception as e:
                if not _through_parso(e):
                    raise
                return {tuple(str(x) for x in ('fault-free-step-raises',) + core.exc_sig(e))}
            return set()
        if case['kind'] in ('crash', 'torn-write'):
            a, _ = crash_shard(root, case['module'], case['version'], case.get('phase', 'save'), case['exc'])
        elif case['kind'] == 'maint':
            a, _ = maint_shard(root, case['version'])
        else:
            a, _ = leftover_shard(root, case['module'], case['version'], 0, 1, 1)
        want = {k: v for k, v in case.items()}
        return {sig for (_, sig), v in a.fails.items()
                if all(v[2].get(k) == want.get(k) for k in ('kind', 'arg', 'call', 'bytes', 'phase') if k in want)} or \
            {sig for (_, sig) in a.fails}
    finally:
        shutil.rmtree(root, ignore_errors=True)


def _through_parso(e):
    import traceback
    return any(os.path.realpath(f.filename).startswith(env.REPO + os.sep)
               for f in traceback.extract_tb(e.__traceback__))


def tagged(job):
    try:
        return job[0], globals()[job[1]](*job[2:])
    except Exception as e:
        # every step a shard makes outside its own try-blocks runs with no fault injected: an exception
        # that escapes from parso there is a parse that failed in a fault-free environment
        if not _through_parso(e):
            raise
        acc = _acc()
        acc.evaluations += 1
        acc.nontrivial += 1
        acc.fail(('fault-free-step-raises',) + core.exc_sig(e),
                 {'kind': 'fault-free-step', 'fn': job[1], 'args': list(job[3:])}, repr(e))
        return job[0], (acc.strip(), 0)


def run(tier, seed):
    R = core.Report(PROP, tier, seed, 'fault_enumeration')
    root = env.scratch_root()
    try:
        jobs = []
        labels = []

        def add(label, fn, args_list):
            i = len(labels)
            labels.append(label)
            for a in args_list:
                jobs.append(((i, fn) + tuple(a),))
        if tier == 'quick':
            add('leftovers module1 3.8 (every truncation, every flip)', 'leftover_shard',
                [(root, 1, '3.8', s, 16, 1) for s in range(16)])
            add('leftovers module0 3.13 (every truncation, every flip)', 'leftover_shard',
                [(root, 0, '3.13', s, 8, 1) for s in range(8)])
            add('leftovers module2 3.8 (every truncation, flip every 4th byte)', 'leftover_shard',
                [(root, 2, '3.8', s, 16, 4) for s in range(16)])
            for phase in ('save', 'load', 'resave', 'cleanup'):
                for exc in ('ENOSPC', 'EIO', 'EPERM'):
                    add('crash points %s %s module0' % (phase, exc), 'crash_shard', [(root, 0, '3.8', phase, exc)])
            add('crash points save ENOSPC module1', 'crash_shard', [(root, 1, '3.13', 'save', 'ENOSPC')])
            add('maintenance', 'maint_shard', [(root, '3.8')])
        else:
            for mno in range(len(MODULES)):
                for v in VERS:
                    add('leftovers module%d %s (all)' % (mno, v), 'leftover_shard',
                        [(root, mno, v, s, 32, 1) for s in range(32)])
            for mno in (0, 1):
                for phase in ('save', 'load', 'resave', 'cleanup'):
                    for exc in ('ENOSPC', 'EIO', 'EPERM'):
                        add('crash points %s %s module%d' % (phase, exc, mno), 'crash_shard', [(root, mno, '3.8', phase, exc)])
            for v in VERS:
                add('maintenance %s' % v, 'maint_shard', [(root, v)])
        accs = [core.Acc() for _ in labels]
        info = [0] * len(labels)
        for i, (a, n) in core.pmap(MOD, 'tagged', jobs):
            accs[i].merge(a)
            info[i] = max(info[i], n)
        for label, acc, n in zip(labels, accs, info):
            R.section(label, acc, size=n)
    finally:
        core.close_pool()
        shutil.rmtree(root, ignore_errors=True)
    R.rule = ('for the pickle of each module: every truncation length, a byte flip at every (quick: 4th) offset, '
              'zero-fill of every 16-byte block, 6 replacements, 4 directory leftovers; for save / load / re-save / '
              'save-with-clean-up: the k-th file-system call made from parso.cache fails for every k, and the writer '
              'fails after j bytes for every j; clean-up: atime age x lock state x saved entry; after each, two '
              'fault-free parses must succeed, equal a fresh parse, and leave a loadable entry')
    R.assumptions = ['faults are injected at the calls parso.cache makes through open/os/pickle (pathlib stat calls are not '
                     'intercepted)', 'running as root: read-only directories are simulated by PermissionError injection',
                     'for the faulting call itself success is required only for missing/read-only directories']
    return R.finish(recheck)
