"""C18 parsing is a pure function of its arguments: isolated, re-entrant, thread-safe.

(1) order/isolation histories, (2) no persistent writes to shared state (deep fingerprint),
(3) every schedule of 2-3 threads with a bounded number of preemptions at line granularity (E-S)."""
import itertools
import json
import os
import subprocess
import sys

from .. import alphabets, core, env
from ..fingerprint import fingerprint

PROP = 'C18'
MOD = 'vp.props.c18'
TEXTS = ['a = (1,\n b)\n', 'if x:\n  y\nelse:\n  $\n', "f'{a!r:>{w}}' \n", 'def f(a, *, b=1): return (yield)\n',
         'class C:\n\tx: int = 1\nglobal x\n', 'import a.b as c\nlambda: 0',
         'x = 1\n    y = 2\nz = 3\n', "a = f'{b!r:>{c}' \n  d = (\ndef e(): pass\n",
         'f(a=1, a=2)\n1 = x\ndel f()\ndef g(a, a): pass\nbreak\nx = *y\n']
KINDS = ['parse', 'strict', 'errors', 'pep8', 'tokenize', 'load']


def reset_memo():
    """cold state of the memoisation caches (what a new interpreter starts with)"""
    import parso.grammar
    import parso.python.tokenize as tk
    import parso.cache
    parso.grammar._loaded_grammars.clear()
    tk._token_collection_cache.clear()
    parso.cache.parser_cache.clear()


def do_call(call):
    """execute one call and return a JSON-able canonical result"""
    import parso
    from parso.parser import ParserSyntaxError
    kind, ti, v = call
    try:
        g = parso.load_grammar(version=v)
    except Exception as e:
        return ['exception-in-load_grammar'] + list(core.exc_sig(e))
    if kind == 'load':
        return ['grammar', list(g.version_info), len(g._pgen_grammar.nonterminal_to_dfas)]
    t = TEXTS[ti]
    try:
        if kind == 'parse':
            return g.parse(t).dump(indent=None)
        if kind == 'strict':
            try:
                return g.parse(t, error_recovery=False).dump(indent=None)
            except ParserSyntaxError as e:
                return ['ParserSyntaxError', list(e.error_leaf.start_pos), e.error_leaf.value]
        if kind == 'errors':
            return [[i.code, i.message, list(i.start_pos), list(i.end_pos)] for i in g.iter_errors(g.parse(t))]
        if kind == 'pep8':
            return [[i.code, i.message, list(i.start_pos), list(i.end_pos)]
                    for i in g._get_normalizer_issues(g.parse(t))]
        if kind == 'tokenize':
            return [[tok.type.name, tok.string, list(tok.start_pos), tok.prefix] for tok in g._tokenize(t)]
    except Exception as e:
        return ['exception'] + list(core.exc_sig(e))
    raise ValueError(kind)


def calls_for(texts, versions, kinds):
    out = []
    for v in versions:
        for k in kinds:
            if k == 'load':
                out.append((k, 0, v))
            else:
                for ti in texts:
                    out.append((k, ti, v))
    return out


def cold_reference(calls):
    """each call alone in a truly fresh interpreter (one subprocess per call)"""
    env.setup()
    out = {}
    for c in calls:
        code = ('import sys, json; sys.path.insert(0, %r); from vp import env; env.setup(); '
                'from vp.props import c18; print(json.dumps(c18.do_call(%r)))' % (env.VERIF, tuple(c)))
        e = dict(os.environ, PYTHONHASHSEED='0', PYTHONDONTWRITEBYTECODE='1', VP_REPO=env.REPO)
        r = subprocess.run([sys.executable, '-c', code], stdout=subprocess.PIPE, stderr=subprocess.PIPE, env=e, cwd=env.VERIF)
        if r.returncode != 0:
            raise RuntimeError('cold reference failed: %s' % r.stderr.decode()[-500:])
        out[tuple(c)] = json.loads(r.stdout.decode())
    return out


def fresh_history(history):
    """run a call history in a truly fresh interpreter; returns the list of canonical results"""
    code = ('import sys, json; sys.path.insert(0, %r); from vp import env; env.setup(); '
            'from vp.props import c18; print(json.dumps([c18.do_call(tuple(c)) for c in %r]))'
            % (env.VERIF, [list(c) for c in history]))
    e = dict(os.environ, PYTHONHASHSEED='0', PYTHONDONTWRITEBYTECODE='1', VP_REPO=env.REPO)
    r = subprocess.run([sys.executable, '-c', code], stdout=subprocess.PIPE, stderr=subprocess.PIPE, env=e, cwd=env.VERIF)
    if r.returncode != 0:
        raise RuntimeError('fresh history failed: %s' % r.stderr.decode()[-500:])
    return json.loads(r.stdout.decode())


def failing_prefix(history, ref):
    """index of the first call of `history` whose result (in a fresh interpreter) differs from its reference"""
    res = fresh_history(history)
    for i, (c, got) in enumerate(zip(history, res)):
        if tuple(c) in ref and got != ref[tuple(c)]:
            return i
    return None


def _acc():
    acc = core.Acc()
    fnd = core.Findings(PROP)
    acc.classify = lambda sig, case, extra: fnd.match(sig, case, None, extra)
    return acc


def norm(x):
    return json.loads(json.dumps(x))


def seq_shard(first, calls, ref_items, length):
    """all call sequences of the given length that start with `first`, each from a cold memo state"""
    env.setup()
    ref = {tuple(k): v for k, v in ref_items}
    acc = _acc()
    calls = [tuple(c) for c in calls]
    first = tuple(first)
    prev = ()
    reported = 0
    for rest in itertools.product(calls, repeat=length - 1):
        seq = (first,) + rest
        acc.evaluations += 1
        if len(set(seq)) > 1:
            acc.nontrivial += 1
        reset_memo()
        for i, c in enumerate(seq):
            got = norm(do_call(c))
            if got != ref[c]:
                # make the witness reproducible from a fresh interpreter: the sequence itself, or (state that
                # survived reset_memo) the previous sequence of this worker followed by it
                hist = None
                if reported < 5:
                    for cand in (seq[:i + 1], prev + seq[:i + 1]):
                        k = failing_prefix(cand, ref)
                        if k is not None:
                            hist = cand[:k + 1]
                            break
                    reported += 1
                if hist is None:
                    hist = prev + seq[:i + 1]
                acc.fail(('result-depends-on-history', hist[-1][0]), {'history': [list(x) for x in hist]},
                         'call %r after %r' % (c, seq[:i]))
                break
        prev = seq
    reset_memo()
    return acc.strip()


def load_order_shard(orders, ref_items):
    env.setup()
    import parso
    ref = {tuple(k): v for k, v in ref_items}
    acc = _acc()
    for order in orders:
        acc.evaluations += 1
        acc.nontrivial += 1
        reset_memo()
        try:
            for v in order:
                parso.load_grammar(version=v)
        except Exception as e:
            acc.fail(('load_grammar-raises',) + core.exc_sig(e), {'history': [['load', 0, x] for x in order]}, repr(e))
            continue
        for v in order:
            for c in (('parse', 1, v), ('errors', 4, v), ('tokenize', 2, v)):
                if c in ref and norm(do_call(c)) != ref[c]:
                    acc.fail(('result-depends-on-load-order', c[0]), {'history': [['load', 0, x] for x in order] + [list(c)]}, '')
    reset_memo()
    return acc.strip()


# ---- (2) fingerprint ----------------------------------------------------------------------------
def fp_shard(name, n, versions, shard_no, nshards, batch):
    env.setup()
    import parso
    import parso.python.diff
    import parso.python.pep8
    from parso.parser import ParserSyntaxError
    acc = _acc()
    try:
        gs = {v: parso.load_grammar(version=v) for v in versions}
        for g in gs.values():     # warm-up: first-use memoisation happens here
            m = g.parse('a=1\n')
            list(g.iter_errors(m))
            g._get_normalizer_issues(m)
            list(g._tokenize('a'))
    except Exception as e:
        acc.fail(('warm-up-call-raises',) + core.exc_sig(e), {'text': 'a=1\n', 'version': versions[0]}, repr(e))
        return acc.strip()
    f0 = fingerprint()[0]

    def run_one(t, v):
        g = gs[v]
        m = g.parse(t)
        try:
            list(g.iter_errors(m))
        except Exception:
            pass
        try:
            g._get_normalizer_issues(m)
        except Exception:
            pass
        try:
            g.parse(t, error_recovery=False)
        except ParserSyntaxError:
            pass
        list(g._tokenize(t))
        g.parse(t.encode('utf-8', 'replace'))
    pending = []
    for t in alphabets.enum(name, n, shard_no, nshards):
        for v in versions:
            pending.append((t, v))
            acc.evaluations += 1
            acc.nontrivial += 1
            run_one(t, v)
        if len(pending) >= batch:
            if fingerprint()[0] != f0:
                _bisect(acc, pending, run_one, f0)
                f0 = fingerprint()[0]
            pending = []
    if fingerprint()[0] != f0:
        _bisect(acc, pending, run_one, f0)
    if shard_no == 0:
        acc.samples.append({'family': 'fingerprint/' + name, 'objects_walked': fingerprint()[1]})
    return acc.strip()


def _bisect(acc, pending, run_one, f0):
    """the shared state changed during this batch: find a single call that changes it"""
    base = fingerprint()[0]
    for t, v in pending:
        run_one(t, v)
        f = fingerprint()[0]
        if f != base:
            acc.fail(('shared-state-modified',), {'text': t, 'version': v}, 'fingerprint changed by this call')
            return
        base = f
    # the state differs from the one before the batch, but repeating the calls does not change it again
    # (e.g. a cached object that keeps the state of the last call): report the batch's first call
    acc.fail(('shared-state-modified',), {'text': pending[0][0], 'version': pending[0][1]},
             'fingerprint differs after the batch; not attributable to a single repeated call')


# ---- (3) schedules ------------------------------------------------------------------------------
BODIES = {
    'parse0': ('parse', 0), 'parse1': ('parse', 1), 'parse2': ('parse', 2), 'parse3': ('parse', 3),
    'errors1': ('errors', 1), 'errors4': ('errors', 4), 'tokenize2': ('tokenize', 2), 'pep8_0': ('pep8', 0),
    'strict1': ('strict', 1), 'parse6': ('parse', 6), 'parse7': ('parse', 7), 'errors6': ('errors', 6),
}


def make_body(name, v):
    kind, ti = BODIES[name]
    return lambda: do_call((kind, ti, v))


def _pin():
    """keep all threads of this worker on one core: hand-overs between its threads then never cross cores"""
    try:
        import multiprocessing
        ident = multiprocessing.current_process()._identity
        if ident:
            os.sched_setaffinity(0, {(ident[0] - 1) % (os.cpu_count() or 1)})
    except Exception:
        pass


def sched_shard(names, v, start, ks, two=None):
    """executions: thread `start` runs first and is preempted at global step k (for every k in ks); with `two`,
    a second preemption back to the first thread after j steps of the other thread (j in two)."""
    env.setup()
    _pin()
    import parso
    from ..sched import Execution
    acc = _acc()
    bodies = [make_body(n, v) for n in names]
    try:
        parso.load_grammar(version=v)
        for b in bodies:
            b()                       # warm grammar, token collection, rule instances
        seq = [('ok', norm(b())) for b in bodies]
    except Exception as e:
        acc.fail(('sequential-call-raises',) + core.exc_sig(e), {'schedule': {'threads': list(names), 'version': v}}, repr(e))
        return acc.strip()
    f0 = fingerprint()[0]
    other = 1 - start if len(names) == 2 else None
    interleaved = 0
    for k in ks:
        variants = [((k, (start + 1) % len(names)),)]
        if two:
            variants = [((k, (start + 1) % len(names)), (k + j, start)) for j in two]
        elif len(names) == 3:
            variants = [((k, (start + 1) % 3),), ((k, (start + 2) % 3),)]
        for pre in variants:
            ex = Execution(bodies, start=start, preempts=pre)
            res = ex.go()
            acc.evaluations += 1
            if ex.switches:
                acc.nontrivial += 1
                interleaved += 1
            case = {'schedule': {'threads': list(names), 'version': v, 'start': start, 'preempts': [list(p) for p in pre]}}
            for i, r in enumerate(res):
                if r[0] != 'ok':
                    acc.fail(('thread-raises', names[i], r[1]), case, r[2])
                    break
                if norm(r[1]) != seq[i][1]:
                    acc.fail(('thread-result-differs-from-sequential', names[i]), case, '')
                    break
    if fingerprint()[0] != f0:
        acc.fail(('shared-state-modified-by-concurrent-run',), {'schedule': {'threads': list(names), 'version': v}}, '')
    acc.counters['executions-with-a-real-switch'] += interleaved
    return acc.strip()


def count_steps(names, v, start):
    env.setup()
    from ..sched import Execution
    bodies = [make_body(n, v) for n in names]
    try:
        for b in bodies:
            b()
    except Exception:
        return 1, 2          # the shard itself reports the failing sequential call
    ex = Execution(bodies, start=start)
    ex.go()
    # steps of the first-running thread
    return sum(1 for t in ex.trace if t[0] == start), len(ex.trace)


COLD_ATOMIC = ('generate_grammar', '_create_token_collection')


def cold_shard(v, texts, ks, start):
    """two threads both doing load_grammar(v); parse(t) from empty memo caches; preemption at every line of
    the memoising code (the pure constructors are atomic)."""
    env.setup()
    from ..sched import Execution
    acc = _acc()

    def body(ti):
        def b():
            import parso
            g = parso.load_grammar(version=v)
            return [g.parse(TEXTS[ti]).dump(indent=None), id(g) and 0]
        return b
    bodies = [body(texts[0]), body(texts[1])]
    reset_memo()
    try:
        seq = [norm(b()) for b in bodies]
    except Exception as e:
        acc.fail(('sequential-call-raises',) + core.exc_sig(e), {'schedule': {'cold': True, 'version': v}}, repr(e))
        return acc.strip()
    total = None
    for k in ks:
        reset_memo()
        ex = Execution(bodies, start=start, preempts=((k, 1 - start),), atomic=COLD_ATOMIC)
        res = ex.go()
        acc.evaluations += 1
        if ex.switches:
            acc.nontrivial += 1
        case = {'schedule': {'cold': True, 'version': v, 'start': start, 'preempts': [[k, 1 - start]]}}
        for i, r in enumerate(res):
            if r[0] != 'ok':
                acc.fail(('cold-thread-raises', r[1]), case, r[2])
                break
            if norm(r[1]) != seq[i]:
                acc.fail(('cold-thread-result-differs',), case, '')
                break
        # afterwards the memoised grammar still works for a third call
        import parso
        try:
            third = norm(parso.load_grammar(version=v).parse(TEXTS[1]).dump(indent=None))
        except Exception as e:
            acc.fail(('cold-third-call-raises',) + core.exc_sig(e), case, repr(e))
            continue
        if third != norm(do_call(('parse', 1, v))):
            acc.fail(('cold-memo-left-inconsistent',), case, '')
    reset_memo()
    return acc.strip()


# ---- cold start in truly fresh interpreters ---------------------------------------------------------
def _cold_body(v, ti):
    def b():
        import parso
        g = parso.load_grammar(version=v)
        m = g.parse(TEXTS[ti])
        out = [m.dump(indent=None), [[i.code, i.message, list(i.start_pos)] for i in g.iter_errors(m)]]
        try:
            out.append([[i.code, list(i.start_pos)] for i in g._get_normalizer_issues(m)])
        except Exception as e:
            out.append(['exception'] + list(core.exc_sig(e)))
        return out
    return b


def fresh_cold_plan(v, tis):
    """(run inside a fresh interpreter) the scheduling points worth preempting at in a cold start: steps whose
    source line is executed by the first (cold) run of a body but not by a second (warm) run - that is where
    first-use memoisation happens, whatever caches exist.  Prints JSON: {steps, sequential results}."""
    env.setup()
    from ..sched import Execution
    b0 = _cold_body(v, tis[0])
    ex1 = Execution([b0], start=0, atomic=COLD_ATOMIC)
    r1 = ex1.go()
    ex2 = Execution([b0], start=0, atomic=COLD_ATOMIC)
    ex2.go()
    warm = {(f, l) for (_, f, l) in ex2.trace}
    steps = [i + 1 for i, (_, f, l) in enumerate(ex1.trace) if (f, l) not in warm]
    seq = [norm(r1[0][1]) if r1[0][0] == 'ok' else list(r1[0]), None]
    b1 = _cold_body(v, tis[1])
    seq[1] = norm(b1())
    return {'steps': steps, 'seq': seq}


def fresh_cold_exec(v, tis, start, k):
    """(run inside a fresh interpreter) two cold threads, thread `start` preempted at step k"""
    env.setup()
    from ..sched import Execution
    bodies = [_cold_body(v, tis[0]), _cold_body(v, tis[1])]
    ex = Execution(bodies, start=start, preempts=((k, 1 - start),), atomic=COLD_ATOMIC)
    res = ex.go()
    return {'res': [list(r) if r[0] != 'ok' else ['ok', norm(r[1])] for r in res], 'switches': ex.switches}


def _fresh(call):
    code = ('import sys, json; sys.path.insert(0, %r); from vp import env; env.setup(); '
            'from vp.props import c18; print("RESULT=" + json.dumps(c18.%s))' % (env.VERIF, call))
    e = dict(os.environ, PYTHONHASHSEED='0', PYTHONDONTWRITEBYTECODE='1', VP_REPO=env.REPO, VP_NPROC='1')
    r = subprocess.run([sys.executable, '-c', code], stdout=subprocess.PIPE, stderr=subprocess.PIPE, env=e, cwd=env.VERIF)
    for line in r.stdout.decode().splitlines():
        if line.startswith('RESULT='):
            return json.loads(line[7:])
    raise RuntimeError('fresh interpreter failed: %s' % r.stderr.decode()[-600:])


def fresh_cold_shard(v, tis, start, ks, seq):
    env.setup()
    acc = _acc()
    for k in ks:
        acc.evaluations += 1
        case = {'schedule': {'cold': 'fresh-interpreter', 'version': v, 'texts': list(tis), 'start': start, 'preempts': [[k, 1 - start]]}}
        try:
            out = _fresh('fresh_cold_exec(%r, %r, %d, %d)' % (v, list(tis), start, k))
        except Exception as e:
            acc.fail(('cold-fresh-execution-failed',), case, repr(e))
            continue
        if out['switches']:
            acc.nontrivial += 1
        for i, r in enumerate(out['res']):
            if r[0] != 'ok':
                acc.fail(('cold-fresh-thread-raises', r[1]), case, r[2] if len(r) > 2 else '')
                break
            if r[1] != seq[i]:
                acc.fail(('cold-fresh-thread-result-differs', 'thread%d' % i), case, '')
                break
    return acc.strip()


def count_cold_steps(v, texts, start):
    env.setup()
    from ..sched import Execution

    def body(ti):
        def b():
            import parso
            g = parso.load_grammar(version=v)
            return g.parse(TEXTS[ti]).dump(indent=None)
        return b
    reset_memo()
    ex = Execution([body(texts[0]), body(texts[1])], start=start, atomic=COLD_ATOMIC)
    ex.go()
    reset_memo()
    # preemption points of the loading phase: up to the first line of the tokenizer (first use of the
    # memoised token collection) - later points are those of the warm schedules
    own = [t for t in ex.trace if t[0] == start]
    n = 0
    for t in own:
        n += 1
        if t[1] == 'tokenize_lines':
            break
    return min(len(own), n + 40)


def recheck(case):
    """witnesses are re-executed in a fresh interpreter each (the property is about state that outlives calls,
    so the reporting process itself must not be part of the experiment)"""
    code = ('import sys, json; sys.path.insert(0, %r); from vp import env; env.setup(); '
            'from vp.props import c18; print("RESULT=" + json.dumps(sorted(c18._recheck_inproc(json.loads(%r)))))'
            % (env.VERIF, json.dumps(case)))
    e = dict(os.environ, PYTHONHASHSEED='0', PYTHONDONTWRITEBYTECODE='1', VP_REPO=env.REPO, VP_NPROC='1')
    r = subprocess.run([sys.executable, '-c', code], stdout=subprocess.PIPE, stderr=subprocess.PIPE, env=e, cwd=env.VERIF)
    for line in r.stdout.decode().splitlines():
        if line.startswith('RESULT='):
            return {tuple(x) for x in json.loads(line[7:])}
    raise RuntimeError('recheck subprocess failed: %s' % r.stderr.decode()[-600:])


def _recheck_inproc(case):
    env.setup()
    if 'text' in case:
        # a single call that changes the shared state (warm-up as in fp_shard, then this one text)
        import vp.alphabets as A
        A.ALPHABETS['_replay'] = [case['text']]
        try:
            a = fp_shard('_replay', 1, [case['version']], 0, 1, 1)
        finally:
            del A.ALPHABETS['_replay']
        return {sig for (_, sig) in a.fails}
    if 'schedule' in case:
        s = case['schedule']
        if not s.get('cold') and not s.get('preempts'):
            a = sched_shard(s['threads'], s['version'], 0, [5, 50])
            return {sig for (_, sig) in a.fails}
        if s.get('cold') == 'fresh-interpreter':
            plan = _fresh('fresh_cold_plan(%r, %r)' % (s['version'], s['texts']))
            seq = plan['seq'] if s['start'] == 0 else None
            if seq is None:
                plan2 = _fresh('fresh_cold_plan(%r, %r)' % (s['version'], s['texts'][::-1]))
                seq = plan2['seq'][::-1]
            a = fresh_cold_shard(s['version'], s['texts'], s['start'], [s['preempts'][0][0]], seq)
            return {sig for (_, sig) in a.fails}
        if s.get('cold') and not s.get('preempts'):
            a = cold_shard(s['version'], [0, 1], [5], 0)
            return {sig for (_, sig) in a.fails}
        if s.get('cold'):
            a = cold_shard(s['version'], [0, 1], [s['preempts'][0][0]], s['start'])
        else:
            pre = s.get('preempts') or []
            if not pre:
                return set()
            two = [pre[1][0] - pre[0][0]] if len(pre) > 1 else None
            a = sched_shard(s['threads'], s['version'], s['start'], [pre[0][0]], two)
        return {sig for (_, sig) in a.fails}
    if 'history' in case:
        h = [tuple(x) for x in case['history']]
        ref = cold_reference(sorted(set(h)))
        out = set()
        for c, got in zip(h, fresh_history(h)):
            if got != ref[c]:
                out.add(('result-depends-on-history', c[0]))
                out.add(('result-depends-on-load-order', c[0]))
        return out
    return set()


def tagged(job):
    return job[0], globals()[job[1]](*job[2:])


def run(tier, seed):
    R = core.Report(PROP, tier, seed, 'model_checking')
    quick = tier == 'quick'
    # ---------- (1) histories
    texts = [0, 1, 4] if quick else list(range(len(TEXTS)))
    versions = ['3.8', '3.14'] if quick else ['3.6', '3.8', '3.14']
    calls = calls_for(texts, versions, KINDS)
    refs = {}
    chunks = [calls[i::env.NPROC] for i in range(env.NPROC)]
    for r in core.pmap(MOD, 'cold_reference', [(c,) for c in chunks if c]):
        refs.update(r)
    ref_items = [(list(k), v) for k, v in refs.items()]
    jobs = []
    labels = []

    def add(label, fn, args_list):
        i = len(labels)
        labels.append(label)
        for a in args_list:
            jobs.append(((i, fn) + tuple(a),))
    add('ordered pairs of calls (%d calls)' % len(calls), 'seq_shard', [(c, calls, ref_items, 2) for c in calls])
    tcalls = calls_for(texts[:2], versions[:2], ['parse', 'errors', 'pep8', 'tokenize', 'load']) if quick else \
        calls_for(texts[:3], versions, KINDS)
    tref = [(list(k), v) for k, v in refs.items() if k in set(map(tuple, tcalls))]
    add('ordered triples of calls (%d calls)' % len(tcalls), 'seq_shard', [(c, tcalls, tref, 3) for c in tcalls])
    V = env.VERSIONS
    orders = [p for s in itertools.combinations(V, 3) for p in itertools.permutations(s)] + \
             [tuple(V[i:] + V[:i]) for i in range(len(V))]
    lrefs = {}
    lcalls = [c for v in V for c in (('parse', 1, v), ('errors', 4, v), ('tokenize', 2, v))]
    missing = [c for c in lcalls if c not in refs]
    for r in core.pmap(MOD, 'cold_reference', [(missing[i::env.NPROC],) for i in range(env.NPROC) if missing[i::env.NPROC]]):
        lrefs.update(r)
    lrefs.update({k: v for k, v in refs.items() if k in set(lcalls)})
    litems = [(list(k), v) for k, v in lrefs.items()]
    add('grammar load orders (%d)' % len(orders), 'load_order_shard', [(orders[i::32], litems) for i in range(32)])
    # ---------- (2) fingerprint
    for a, n in (('blocks', 3), ('strs', 3), ('stm2', 2 if quick else 3), ('sem', 3)):
        add('fingerprint %s<=%d' % (a, n), 'fp_shard', [(a, n, ['3.6', '3.8', '3.12'], s, 16, 1500) for s in range(16)])
    accs = None
    # ---------- (3) schedules: first measure the step counts (deterministic), then enumerate
    pairs = [(('parse0', 'parse1'), '3.8'), (('parse1', 'errors4'), '3.8'), (('tokenize2', 'parse0'), '3.8'),
             (('pep8_0', 'parse1'), '3.8'), (('parse3', 'strict1'), '3.12'), (('parse6', 'parse0'), '3.8'),
             (('parse7', 'errors6'), '3.10')]
    if not quick:
        pairs += [(('parse2', 'parse3'), '3.6'), (('errors1', 'errors4'), '3.14'), (('parse0', 'errors1'), '3.14')]
    steps = {}
    cjobs = [(names, v, st) for names, v in pairs for st in (0, 1)]
    for (names, v, st), r in zip(cjobs, _ordered_map('count_steps', cjobs)):
        steps[(names, v, st)] = r
    for names, v in pairs:
        for st in (0, 1):
            if st == 1 and names[0] in ('parse6', 'parse7') and quick:
                continue        # quick: the error-recovery bodies are only preempted (start=0), not preempting
            own, total = steps[(names, v, st)]
            ks = list(range(1, own + 1))
            add('schedules %s|%s %s start=%d, 1 preemption (%d steps)' % (names[0], names[1], v, st, own), 'sched_shard',
                [(list(names), v, st, ks[i::16]) for i in range(16)])
    # two preemptions: tokenize || parse at line granularity (a slice in quick)
    names, v = ('tokenize2', 'parse0'), '3.8'
    own, total = steps[(names, v, 0)]
    other = total - own
    k_list = list(range(1, own + 1, 2 if not quick else 16))
    j_list = list(range(1, other, 3 if not quick else 24))
    add('schedules tokenize2|parse0 3.8, 2 preemptions (%dx%d)' % (len(k_list), len(j_list)), 'sched_shard',
        [(list(names), v, 0, k_list[i::32], j_list) for i in range(32)])
    # three threads, one preemption
    t3 = ('parse0', 'errors4', 'tokenize2')
    own3, _ = _ordered_map('count_steps', [(list(t3), '3.8', 0)])[0]
    add('schedules 3 threads %s, 1 preemption' % '|'.join(t3), 'sched_shard',
        [(list(t3), '3.8', 0, list(range(1, own3 + 1))[i::16]) for i in range(16)])
    # cold start
    for v in (['3.9'] if quick else ['3.7', '3.9', '3.13']):
        for st in (0, 1):
            n = _ordered_map('count_cold_steps', [(v, [0, 1], st)])[0]
            add('cold start 2 threads %s start=%d (%d steps)' % (v, st, n), 'cold_shard',
                [(v, [0, 1], list(range(1, n + 1))[i::8], st) for i in range(8)])
    # cold start in fresh interpreters, preempting at the cold-only lines (first-use memoisation of any kind)
    for v, tis in ((('3.9', (4, 8)),) if quick else (('3.9', (4, 8)), ('3.13', (8, 4)), ('3.7', (1, 8)))):
        plan0 = _fresh('fresh_cold_plan(%r, %r)' % (v, list(tis)))
        ks = plan0['steps']
        if quick:
            ks = ks[::2] if len(ks) > 160 else ks
        add('cold start in fresh interpreters %s texts %s (%d cold-only steps)' % (v, list(tis), len(plan0['steps'])),
            'fresh_cold_shard', [(v, list(tis), 0, ks[i::16], plan0['seq']) for i in range(16)])
    accs = [core.Acc() for _ in labels]
    for i, a in core.pmap(MOD, 'tagged', jobs):
        accs[i].merge(a)
    sched_exec = 0
    for label, acc in zip(labels, accs):
        R.section(label, acc)
        if label.startswith(('schedules', 'cold')):
            sched_exec += acc.evaluations
    R.coverage.update(states=R.acc.evaluations, transitions=R.acc.evaluations,
                      traces_validated_against_impl=R.acc.evaluations, schedules_executed=sched_exec,
                      executions_with_a_real_switch=R.acc.counters.get('executions-with-a-real-switch', 0))
    R.acc.samples.append({'family': 'schedule', 'schedule': {'threads': ['parse0', 'parse1'], 'start': 0, 'preempts': [[137, 1]]}})
    R.rule = ('(1) every ordered pair / triple of calls (parse, strict parse, iter_errors, pep8, tokenize, load_grammar x '
              'texts x versions) from a cold memo state against each call alone in a fresh interpreter; all orders of '
              'every 3-subset of grammar loads; (2) deep fingerprint of all parso.* module state after every batch of '
              'E-A texts; (3) stateless exploration of thread schedules under a settrace scheduler: every schedule '
              'with 1 preemption at line granularity for 5-8 pairs of calls and a 3-thread harness, 2 preemptions for '
              'tokenize||parse, cold start of two loading threads.  states/transitions = executions (each a complete '
              'run of the real code)')
    R.assumptions = ['preemption points are traced line events of parso/*.py; C code is atomic under the GIL',
                     '2-3 threads, <= 2 preemptions; free-threaded CPython out of scope']
    return R.finish(recheck)


def _ordered_map(fn, arglist):
    out = {}
    for i, r in core.pmap(MOD, 'tagged', [((i, fn) + tuple(a),) for i, a in enumerate(arglist)]):
        out[i] = r
    return [out[i] for i in range(len(arglist))]
