"""C19 trees survive serialisation (pickle, eval(dump())) and refactoring is an exact text splice."""
import pickle

from .. import core, engb, env, sigma
from ..treeutil import leaves, nodes, parents_ok, structure, has_err

PROP = 'C19'
MOD = 'vp.props.c19'
INDENTS = [None, 0, 1, 4, '', '\t', ' ']
REPL = ['', 'X', '\n']
PAIR_LIMIT = 40


def setup(fam):
    import parso
    import parso.python.tree as pt
    import parso.tree as t
    ns = {}
    ns.update(vars(t))
    ns.update(vars(pt))
    return {'g': {v: parso.load_grammar(version=v) for v in fam['versions']}, 'ns': ns,
            'pairs': fam.get('pairs', True)}


def check_text(ctx, fam, text, acc):
    for v, g in ctx['g'].items():
        acc.evaluations += 1
        case = {'text': text, 'version': v}
        try:
            m = g.parse(text)
        except Exception as e:
            acc.fail(('parse-raises',) + core.exc_sig(e), case, repr(e))
            continue
        try:
            oracle(ctx, g, m, text, case, acc)
        except Exception as e:
            acc.fail(('raises',) + core.exc_sig(e), case, repr(e))


def same_tree(a, b, text):
    """b is 'the same tree' as a: identical classes/types/values/prefixes/positions, links, code."""
    if structure(a) != structure(b):
        return 'structure differs'
    r = parents_ok(b)
    if r:
        return r
    if b.get_code() != text:
        return 'code differs'
    for x, y in zip(nodes(a), nodes(b)):
        if type(x) is not type(y):
            return 'class differs'
        if x.end_pos != y.end_pos:
            return 'end_pos differs'
    return None


def oracle(ctx, g, m, text, case, acc):
    st = structure(m)
    if sum(1 for _ in nodes(m)) > 4:
        acc.nontrivial += 1
    # --- pickle, every protocol
    for proto in range(2, pickle.HIGHEST_PROTOCOL + 1):
        try:
            m2 = pickle.loads(pickle.dumps(m, proto))
        except Exception as e:
            return acc.fail(('pickle-raises', 'proto%d' % proto) + core.exc_sig(e), case, repr(e))
        r = same_tree(m, m2, text)
        if r:
            return acc.fail(('pickle', r), case, 'protocol %d' % proto)
    # --- eval(dump(indent))
    d0 = None
    for ind in INDENTS:
        try:
            d = m.dump(indent=ind)
        except Exception as e:
            return acc.fail(('dump-raises', repr(ind)) + core.exc_sig(e), case, repr(e))
        try:
            m3 = eval(d, dict(ctx['ns']))
        except Exception as e:
            return acc.fail(('eval-dump-raises', repr(ind), type(e).__name__), case, repr(e))
        r = same_tree(m, m3, text)
        if r:
            return acc.fail(('eval-dump', r, repr(ind)), case)
        if m3.dump(indent=ind) != d:
            return acc.fail(('dump-of-eval-differs', repr(ind)), case)
    if structure(m) != st:
        return acc.fail(('tree-modified-by-serialisation',), case)
    # --- refactoring = splice on the offset intervals
    span = {}
    off = 0
    for l in leaves(m):
        a = off
        off += len(l.prefix) + len(l.value)
        span[id(l)] = (a, off)
    allnodes = list(nodes(m))
    for n in allnodes:
        if hasattr(n, 'children'):
            f = n
            while hasattr(f, 'children'):
                f = f.children[0]
            la = n
            while hasattr(la, 'children'):
                la = la.children[-1]
            span[id(n)] = (span[id(f)][0], span[id(la)][1])
    try:
        if g.refactor(m, {}) != text:
            return acc.fail(('refactor-empty-map',), case)
    except Exception as e:
        return acc.fail(('refactor-raises',) + core.exc_sig(e), case, repr(e))
    for n in allnodes:
        a, b = span[id(n)]
        for r in REPL:
            got = g.refactor(m, {n: r})
            if got != text[:a] + r + text[b:]:
                return acc.fail(('refactor-single', n.type), case,
                                'node %r repl %r: %r' % (n, r, got))
    if ctx['pairs']:
        cand = allnodes[:PAIR_LIMIT]
        for i in range(len(cand)):
            a1, b1 = span[id(cand[i])]
            if a1 == b1:
                continue
            for j in range(i + 1, len(cand)):
                a2, b2 = span[id(cand[j])]
                if a2 == b2:
                    continue
                if b1 <= a2:
                    lo, hi = (a1, b1, 'P'), (a2, b2, 'Q')
                elif b2 <= a1:
                    lo, hi = (a2, b2, 'Q'), (a1, b1, 'P')
                else:
                    continue      # nested or overlapping: not pairwise disjoint
                got = g.refactor(m, {cand[i]: 'P', cand[j]: 'Q'})
                exp = text[:lo[0]] + lo[2] + text[lo[1]:hi[0]] + hi[2] + text[hi[1]:]
                if got != exp:
                    return acc.fail(('refactor-pair',), case, '%r,%r: %r != %r' % (cand[i], cand[j], got, exp))
    if structure(m) != st:
        return acc.fail(('tree-modified-by-refactor',), case)


def recheck(case):
    return sigma.recheck_text(MOD, case)


def families(tier, seed):
    V = env.VERSIONS
    if tier == 'quick':
        fams = [sigma.fam(a, 3, ['3.6', '3.8', '3.10', '3.12', '3.14']) for a in ('ws', 'blocks', 'strs', 'ops', 'stm', 'stm2')]
        fams += [sigma.fam(a, 2, V, name='%s<=2/all' % a) for a in ('ws', 'blocks', 'strs', 'ops', 'stm', 'stm2')]
        fams += [sigma.fam(a, 4, ['3.8'], name='%s=4' % a, n_lo=4, slice_mod=4, slice_eq=seed % 4)
                 for a in ('blocks', 'strs', 'ops')]
    else:
        fams = [sigma.fam(a, 4, ['3.6', '3.8', '3.12', '3.14']) for a in ('ws', 'blocks', 'strs', 'ops', 'stm', 'stm2')]
        fams += [sigma.fam(a, 3, V, name='%s<=3/all' % a) for a in ('ws', 'blocks', 'strs', 'ops', 'stm', 'stm2')]
    if tier == 'quick':
        fams += [sigma.g3('3.8', 4, slice_mod=8, slice_eq=seed % 8), sigma.g3('3.13', 4, slice_mod=16, slice_eq=seed % 16)]
    else:
        fams += [sigma.g3(v, 6) for v in ('3.8', '3.13')]
    return fams


def run(tier, seed):
    R = core.Report(PROP, tier, seed, 'exploration')
    R.rule = ('every distinct text over each named lexeme alphabet with <= n symbols x versions, and E-B line '
              'histories; per tree: pickle protocols 2..HIGHEST, eval(dump(indent)) for 7 indent styles, '
              'refactor with {} / every single node x 3 replacements / every disjoint pair among the first 40 '
              'nodes; non-trivial = trees with more than 4 nodes')
    R.assumptions = ['texts limited to the listed alphabets/lengths/line pools',
                     'pairs with an empty span are skipped (order of two insertions at one offset is undefined)',
                     'for trees with more than 40 nodes only pairs among the first 40 nodes (DFS order)']
    sigma.sweep(R, MOD, families(tier, seed))
    engb.run_plan(R, MOD, tier, seed, quick=(('3.8', 3), ('3.14', 3)), thorough=(('3.8', 5), ('3.14', 4), ('3.6', 4)))
    return R.finish(recheck)
