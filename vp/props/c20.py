"""C20 the PEP 8 checker never fails and reports well-formed, stable issues."""
import pickle
import re

from .. import core, engb, env, sigma
from ..treeutil import has_err, structure, leaves, parents_ok

PROP = 'C20'
MOD = 'vp.props.c20'
CONFIGS = ['default', 'tabs', 'narrow']


def make_config(name):
    from parso.python.pep8 import PEP8NormalizerConfig
    if name == 'default':
        return None
    if name == 'tabs':
        return PEP8NormalizerConfig(indentation='\t')
    if name == 'narrow':
        return PEP8NormalizerConfig(indentation='  ', max_characters=10)
    raise ValueError(name)


def setup(fam):
    import parso
    return {'g': {v: parso.load_grammar(version=v) for v in fam['versions']},
            'cfg': {c: make_config(c) for c in fam.get('configs', CONFIGS)}}


def issue_tuple(i):
    return (i.code, i.message, tuple(i.start_pos), tuple(i.end_pos))


def check_text(ctx, fam, text, acc):
    for v, g in ctx['g'].items():
        case0 = {'text': text, 'version': v}
        try:
            m = g.parse(text)
        except Exception as e:
            acc.fail(('parse-raises',) + core.exc_sig(e), case0, repr(e))
            continue
        st = structure(m)
        he = has_err(m)
        for cname, cfg in ctx['cfg'].items():
            acc.evaluations += 1
            case = {'text': text, 'version': v, 'config': cname, 'fam': {'configs': [cname]}}
            oracle(g, m, st, he, text, cfg, case, acc)


def oracle(g, m, st, he, text, cfg, case, acc):
    try:
        iss = g._get_normalizer_issues(m, cfg)
    except Exception as e:
        acc.fail(('raises',) + core.exc_sig(e), case, repr(e), extra=(m, text))
        return
    if structure(m) != st:
        return acc.fail(('tree-modified',), case)
    pr = parents_ok(m)
    if pr:
        return acc.fail(('tree-modified', 'parent-links'), case, pr)
    end = m.end_pos
    seen = set()
    tups = []
    for i in iss:
        try:
            t = issue_tuple(i)
        except Exception as e:
            return acc.fail(('issue-attribute-raises',) + core.exc_sig(e), case, repr(e))
        code, msg, sp, ep = t
        if not isinstance(code, int) or isinstance(code, bool) or not isinstance(msg, str):
            return acc.fail(('issue-code-or-message-type',), case, repr(t))
        if sp[1] < 0 or ep[1] < 0:
            return acc.fail(('negative-column', str(code)), case, repr(t), extra=(m, text))
        if not ((1, 0) <= sp <= ep <= end):
            return acc.fail(('range-outside-file', str(code)), case, '%r file ends %r' % (t, end), extra=(m, text))
        if (code, sp) in seen:
            return acc.fail(('duplicate-code-position', str(code)), case, repr(t), extra=(m, text))
        seen.add((code, sp))
        tups.append(t)
    try:
        iss2 = [issue_tuple(i) for i in g._get_normalizer_issues(m, cfg)]
    except Exception as e:
        return acc.fail(('second-call-raises',) + core.exc_sig(e), case, repr(e))
    if iss2 != tups:
        return acc.fail(('second-call-differs',), case)
    try:
        try:
            m2 = pickle.loads(pickle.dumps(m))
        except RecursionError:
            m2 = None          # pickle's own recursion limit on very deep trees is not the checker's business
            acc.counters['unpickled-provenance-skipped-(pickle-recursion-limit)'] += 1
        iss3 = tups if m2 is None else [issue_tuple(i) for i in g._get_normalizer_issues(m2, cfg)]
    except Exception as e:
        return acc.fail(('unpickled-raises',) + core.exc_sig(e), case, repr(e))
    if iss3 != tups:
        return acc.fail(('unpickled-tree-differs',), case)
    if not he and text != '':
        has292 = any(t[0] == 292 for t in tups)
        want = not (text.endswith('\n') or text.endswith('\r'))
        if has292 != want:
            return acc.fail(('w292', 'reported=%s' % has292), case, repr(text[-3:]), extra=(m, text))
    if tups:
        acc.nontrivial += 1


def provenance_shard(pool, k, version, indices):
    """issues of an incrementally re-parsed module (diff_cache history T -> T') equal those of a fresh parse of
    T', for every ordered pair over the C04 line-pool text set"""
    parso = env.setup()
    from parso import cache as cache_mod
    from .c04 import pool_texts, PATH
    g = parso.load_grammar(version=version)
    texts = pool_texts(pool, k)
    acc = sigma.make_acc(__import__('vp.props.c20', fromlist=['x']))

    def issues(m):
        try:
            return [issue_tuple(i) for i in g._get_normalizer_issues(m)]
        except Exception as e:
            return ('exception',) + core.exc_sig(e)
    fresh = [issues(g.parse(t)) for t in texts]
    for i in indices:
        for j, t1 in enumerate(texts):
            acc.evaluations += 1
            cache_mod.parser_cache.clear()
            case = {'history': [texts[i], t1], 'version': version}
            try:
                m0 = g.parse(texts[i], diff_cache=True, path=PATH)
                try:
                    g._get_normalizer_issues(m0)        # anything the walk caches on the tree is now populated
                except Exception:
                    pass
                m1 = g.parse(t1, diff_cache=True, path=PATH)
            except Exception as e:
                continue       # a failing re-parse is C04's business
            got = issues(m1)
            if got and not isinstance(got, tuple):
                acc.nontrivial += 1
            if got != fresh[j]:
                acc.fail(('issues-differ-for-incremental-tree',), case, 'incremental %r\nfresh %r' % (got, fresh[j]))
    cache_mod.parser_cache.clear()
    if 0 in indices:
        acc.samples.append({'family': 'provenance', 'history': [texts[1], texts[-1]]})
    return acc.strip()


def nesting_shard(versions, ks):
    env.setup()
    from .c02 import nesting_texts
    fam = {'name': 'nesting', 'versions': versions, 'configs': ['default']}
    ctx = sigma._ctx(MOD, dict(fam, ctxkey='nest'))
    acc = sigma.make_acc(__import__('vp.props.c20', fromlist=['x']))
    for k in ks:
        for shape, text in nesting_texts(k):
            check_text(ctx, fam, text, acc)
    return acc.strip()


def rule_ff_in_comment(case, sig, extra, match):
    if not extra:
        return False
    return re.search(r'#[^\r\n]*\f', extra[1]) is not None


RULES = {'c20_ff_in_comment': rule_ff_in_comment}


def recheck(case):
    if 'history' in case:
        parso = env.setup()
        from parso import cache as cache_mod
        from .c04 import PATH
        g = parso.load_grammar(version=case['version'])

        def issues(m):
            try:
                return [issue_tuple(i) for i in g._get_normalizer_issues(m)]
            except Exception as e:
                return ('exception',) + core.exc_sig(e)
        cache_mod.parser_cache.clear()
        m = None
        for t in case['history']:
            m = g.parse(t, diff_cache=True, path=PATH)
            if t is not case['history'][-1]:
                try:
                    g._get_normalizer_issues(m)
                except Exception:
                    pass
        cache_mod.parser_cache.clear()
        return {('issues-differ-for-incremental-tree',)} if issues(m) != issues(g.parse(case['history'][-1])) else set()
    return sigma.recheck_text(MOD, case)


def families(tier, seed):
    V = env.VERSIONS
    if tier == 'quick':
        Q = ['3.6', '3.8', '3.10', '3.13']
        fams = [sigma.fam(a, 3, Q) for a in ('blocks', 'ws', 'ops', 'stm', 'stm2', 'strs', 'indent', 'sem')]
        fams += [sigma.fam(a, 2, V, name='%s<=2/all' % a) for a in ('blocks', 'ws', 'ops', 'stm', 'stm2', 'strs', 'indent', 'sem')]
        fams += [sigma.fam(a, 4, ['3.8'], name='%s=4' % a, n_lo=4) for a in ('blocks', 'ws', 'indent')]
        fams.append(sigma.fam('ffc', 6, ['3.8']))
        fams.append(sigma.fam('pep8', 4, ['3.8', '3.13']))
        k = ('ops', 'stm', 'stm2', 'strs')[seed % 4]
        fams.append(sigma.seed_slice(k, 4, ['3.8', '3.14'], seed, 16))
    else:
        fams = [sigma.fam(a, 4, V) for a in ('blocks', 'ws', 'ops', 'stm', 'stm2', 'strs', 'indent', 'sem')]
        fams += [sigma.fam(a, 5, ['3.12'], name='%s=5' % a, n_lo=5) for a in ('blocks', 'ws', 'indent')]
        fams.append(sigma.fam('ffc', 7, ['3.8']))
        fams.append(sigma.fam('pep8', 5, ['3.8', '3.13']))
    if tier == 'quick':
        fams += [sigma.g3('3.8', 4, slice_mod=2, slice_eq=seed % 2), sigma.g3('3.13', 4, slice_mod=8, slice_eq=seed % 8)]
    else:
        fams += [sigma.g3(v, 6) for v in ('3.8', '3.13')]
    return fams


def run(tier, seed):
    R = core.Report(PROP, tier, seed, 'exploration')
    R.rule = ('every distinct text over each named lexeme alphabet with <= n symbols x versions x 3 checker '
              'configurations (default, tabs, 2-space/10 columns), and E-B line histories; non-trivial = '
              '(text, version, configuration) with at least one issue')
    R.assumptions = ['texts limited to the listed alphabets/lengths/line pools',
                     'W292 exactness is only required on error-free trees of non-empty texts']
    sigma.sweep(R, MOD, families(tier, seed))
    acc = core.Acc()
    ks = sorted(set(list(range(1, 101, 4 if tier == 'quick' else 1)) + [99, 100]))
    for a in core.pmap(MOD, 'nesting_shard', [(['3.8'] if tier == 'quick' else ['3.8', '3.13'], [k]) for k in ks]):
        acc.merge(a)
    R.section('nesting families depth <= 100', acc)
    from .c04 import pool_texts, POOLS
    for pool in (('A', 'D', 'P') if tier == 'quick' else tuple(POOLS) + ('P',)):
        k = 3 if pool == 'P' else 2
        n = len(pool_texts(pool, k))
        idx = list(range(n))
        acc = core.Acc()
        for v in (('3.8',) if tier == 'quick' else ('3.6', '3.8', '3.14')):
            for a in core.pmap(MOD, 'provenance_shard', [(pool, k, v, idx[i::32]) for i in range(32)]):
                acc.merge(a)
        R.section('provenance: incremental re-parse, pool %s k<=%d' % (pool, k), acc, texts=n)
    engb.run_plan(R, MOD, tier, seed, quick=(('3.8', 4),), thorough=(('3.8', 6), ('3.14', 5), ('3.6', 5)))
    return R.finish(recheck)
