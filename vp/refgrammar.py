"""Independent reference reading of pgen-style EBNF grammar files (shares no code with parso.pgen2).

grammar text -> regular-expression AST per rule -> Antimirov partial derivatives.  A state of a
rule's reference automaton is a frozenset of residual expressions."""
import ast as pyast
import heapq
import os
import re

from . import env

_WS = re.compile(r"[ \t\f\r]*")
_NAME = re.compile(r"[A-Za-z_][A-Za-z_0-9]*")
_STR = re.compile(r"'(?:[^'\\\n]|\\.)*'|\"(?:[^\"\\\n]|\\.)*\"")


def lex(text):
    pos = 0
    depth = 0
    out = []
    n = len(text)
    while pos < n:
        pos = _WS.match(text, pos).end()
        if pos >= n:
            break
        c = text[pos]
        if c == '#':
            while pos < n and text[pos] != '\n':
                pos += 1
            continue
        if c == '\n':
            pos += 1
            if depth == 0:
                out.append(('NL', '\n'))
            continue
        m = _NAME.match(text, pos)
        if m:
            out.append(('NAME', m.group()))
            pos = m.end()
            continue
        m = _STR.match(text, pos)
        if m:
            out.append(('STR', m.group()))
            pos = m.end()
            continue
        if c in '([':
            depth += 1
        if c in ')]':
            depth -= 1
        if c in '()[]|*+:':
            out.append(('OP', c))
            pos += 1
            continue
        raise SyntaxError('bad char %r at %d' % (c, pos))
    out.append(('NL', '\n'))
    out.append(('END', ''))
    return out


# regex AST: ('sym', s) ('seq', [..]) ('alt', [..]) ('opt', r) ('star', r) ('plus', r); eps = ('seq', ())
class _P:
    def __init__(self, toks):
        self.t = toks
        self.i = 0

    def peek(self):
        return self.t[self.i]

    def eat(self):
        x = self.t[self.i]
        self.i += 1
        return x

    def expect(self, tok):
        x = self.eat()
        if x != tok:
            raise SyntaxError('expected %r got %r' % (tok, x))

    def grammar(self):
        rules = []
        while self.peek()[0] != 'END':
            if self.peek()[0] == 'NL':
                self.eat()
                continue
            k, name = self.eat()
            if k != 'NAME':
                raise SyntaxError('rule name expected, got %r' % (name,))
            self.expect(('OP', ':'))
            r = self.rhs()
            if self.eat()[0] != 'NL':
                raise SyntaxError('newline expected after rule %s' % name)
            rules.append((name, r))
        return rules

    def rhs(self):
        alts = [self.items()]
        while self.peek() == ('OP', '|'):
            self.eat()
            alts.append(self.items())
        return alts[0] if len(alts) == 1 else ('alt', alts)

    def items(self):
        its = [self.item()]
        while self.peek()[0] in ('NAME', 'STR') or self.peek() in (('OP', '('), ('OP', '[')):
            its.append(self.item())
        return its[0] if len(its) == 1 else ('seq', its)

    def item(self):
        if self.peek() == ('OP', '['):
            self.eat()
            r = self.rhs()
            self.expect(('OP', ']'))
            return ('opt', r)
        a = self.atom()
        if self.peek() == ('OP', '*'):
            self.eat()
            return ('star', a)
        if self.peek() == ('OP', '+'):
            self.eat()
            return ('plus', a)
        return a

    def atom(self):
        if self.peek() == ('OP', '('):
            self.eat()
            r = self.rhs()
            self.expect(('OP', ')'))
            return r
        k, v = self.eat()
        if k not in ('NAME', 'STR'):
            raise SyntaxError('symbol expected, got %r' % (v,))
        return ('sym', v)


def parse_grammar(text):
    return _P(lex(text)).grammar()


EPS = ('seq', ())


def nullable(r):
    k = r[0]
    if k == 'sym':
        return False
    if k == 'seq':
        return all(nullable(x) for x in r[1])
    if k == 'alt':
        return any(nullable(x) for x in r[1])
    if k in ('opt', 'star'):
        return True
    if k == 'plus':
        return nullable(r[1])
    raise ValueError(k)


def mkseq(a, b):
    if a == EPS:
        return b
    if b == EPS:
        return a
    return ('seq', (a, b))


def norm(r):
    k = r[0]
    if k == 'sym':
        return r
    if k == 'seq':
        out = EPS
        for x in reversed(list(r[1])):
            out = mkseq(norm(x), out)
        return out
    if k == 'alt':
        return ('alt', tuple(norm(x) for x in r[1]))
    return (k, norm(r[1]))


def pderiv(r, a):
    """Antimirov partial derivatives of a normalised expression by symbol a -> set of expressions."""
    k = r[0]
    if k == 'sym':
        return {EPS} if r[1] == a else set()
    if k == 'seq':
        if r == EPS:
            return set()
        x, y = r[1]
        out = {mkseq(d, y) for d in pderiv(x, a)}
        if nullable(x):
            out |= pderiv(y, a)
        return out
    if k == 'alt':
        out = set()
        for x in r[1]:
            out |= pderiv(x, a)
        return out
    if k == 'opt':
        return pderiv(r[1], a)
    if k == 'star':
        return {mkseq(d, r) for d in pderiv(r[1], a)}
    if k == 'plus':
        return {mkseq(d, ('star', r[1])) for d in pderiv(r[1], a)}
    raise ValueError(k)


def firsts(r):
    k = r[0]
    if k == 'sym':
        return {r[1]}
    if k == 'seq':
        if r == EPS:
            return set()
        x, y = r[1]
        return firsts(x) | (firsts(y) if nullable(x) else set())
    if k == 'alt':
        o = set()
        for x in r[1]:
            o |= firsts(x)
        return o
    return firsts(r[1])


def S_nullable(S):
    return any(nullable(r) for r in S)


def S_firsts(S):
    o = set()
    for r in S:
        o |= firsts(r)
    return o


_deriv_cache = {}


def S_deriv(S, a):
    key = (S, a)
    r = _deriv_cache.get(key)
    if r is None:
        o = set()
        for x in S:
            o |= pderiv(x, a)
        r = _deriv_cache[key] = frozenset(o)
        if len(_deriv_cache) > 400000:
            _deriv_cache.clear()
    return r


def symbols(r, out=None):
    out = set() if out is None else out
    if r[0] == 'sym':
        out.add(r[1])
    elif r[0] in ('seq', 'alt'):
        for x in r[1]:
            symbols(x, out)
    else:
        symbols(r[1], out)
    return out


def is_quoted(sym):
    return sym[0] in '\'"'


INF = 10 ** 9


class RefGrammar:
    def __init__(self, text):
        self.text = text
        parsed = parse_grammar(text)
        self.order = [n for n, _ in parsed]
        self.rules = {n: norm(r) for n, r in parsed}
        self.start = self.order[0]
        self.reserved = set()
        for r in self.rules.values():
            for s in symbols(r):
                if is_quoted(s):
                    self.reserved.add(pyast.literal_eval(s))
        self._first = {}
        self._unit = None
        self.cost = None
        # arcs never used when *generating* sentences: a bare NEWLINE statement cannot be produced by the
        # tokenizer (the property excludes it)
        self.banned = {('stmt', 'NEWLINE'), ('file_input', 'NEWLINE')}

    def start_state(self, rule):
        return frozenset({self.rules[rule]})

    # ---- FIRST over terminals (None if left recursive)
    def first(self, n, _stack=()):
        if n in self._first:
            return self._first[n]
        if n in _stack:
            raise RecursionError('left recursion through %s' % n)
        out = set()
        for a in firsts(self.rules[n]):
            if a in self.rules:
                out |= self.first(a, _stack + (n,))
            else:
                out.add(a)
        self._first[n] = out
        return out

    # ---- unit derivations: which symbols can a rule derive as its single child
    def _units(self):
        if self._unit is None:
            self._unit = {}
            self._unit_eof = {}
            for n, r in self.rules.items():
                S = frozenset({r})
                u = set()
                ue = set()
                for a in S_firsts(S):
                    D = S_deriv(S, a)
                    if S_nullable(D):
                        u.add(a)
                    if S_nullable(D) or S_nullable(S_deriv(D, 'NEWLINE')):
                        ue.add(a)
                self._unit[n] = u
                self._unit_eof[n] = ue
            self._closure = {}
        return self._unit, self._unit_eof

    def closure(self, X, eof=False):
        """All symbols reachable from X by single-child collapsing (eof: a final NEWLINE may be absent)."""
        self._units()
        key = (X, eof)
        c = self._closure.get(key)
        if c is None:
            seen = {X}
            work = [X]
            table = self._unit_eof if eof else self._unit
            while work:
                y = work.pop()
                if y in self.rules:
                    for z in table[y]:
                        if z not in seen:
                            seen.add(z)
                            work.append(z)
            c = self._closure[key] = frozenset(seen)
        return c

    # ---- shortest expansions
    def _minexp(self):
        if self.cost is not None:
            return
        self.cost = {n: INF for n in self.rules}
        self.best = {}
        changed = True
        while changed:
            changed = False
            for n in self.order:
                c, w = self.shortest_word(frozenset({self.rules[n]}), n)
                if c < self.cost[n]:
                    self.cost[n] = c
                    self.best[n] = w
                    changed = True

    def symcost(self, s):
        self._minexp()
        return self.cost[s] if s in self.rules else 1

    def shortest_word(self, S0, rule=None):
        if self.cost is None:
            self._minexp()
        dist = {S0: 0}
        pq = [(0, 0, S0, ())]
        cnt = 0
        while pq:
            d, _, S, w = heapq.heappop(pq)
            if d > dist.get(S, INF):
                continue
            if S_nullable(S):
                return d, w
            # among equally short expansions prefer NAME/NUMBER/STRING over punctuation and keywords ('...' as
            # the minimal atom makes most sentences uncompilable)
            for a in sorted(S_firsts(S), key=lambda x: (is_quoted(x), x)):
                c = self.cost[a] if a in self.rules else 1
                if c >= INF or (rule, a) in self.banned:
                    continue
                S2 = S_deriv(S, a)
                nd = d + c
                if nd < dist.get(S2, INF):
                    dist[S2] = nd
                    cnt += 1
                    heapq.heappush(pq, (nd, cnt, S2, w + (a,)))
        return INF, None

    def words(self, rule, maxlen, cap=200000):
        """All symbol words of the rule with at most maxlen symbols (shortlex per DFS over sorted firsts)."""
        self._minexp()
        out = []

        def rec(S, w):
            if len(out) >= cap:
                return
            if S_nullable(S) and w:
                out.append(w)
            if len(w) >= maxlen:
                return
            for a in sorted(S_firsts(S)):
                if self.symcost(a) >= INF or (rule, a) in self.banned:
                    continue
                rec(S_deriv(S, a), w + (a,))
        rec(frozenset({self.rules[rule]}), ())
        return out

    def minlen(self, rule):
        S = frozenset({self.rules[rule]})
        level = [S]
        k = 0
        seen = {S}
        while True:
            if k > 0 and any(S_nullable(x) for x in level):
                return k
            nxt = []
            for x in level:
                for a in S_firsts(x):
                    y = S_deriv(x, a)
                    if y not in seen:
                        seen.add(y)
                        nxt.append(y)
            level = nxt
            k += 1
            if not level:
                return None

    def expand_min(self, sym):
        """Derivation tree of the shortest expansion: (rule, [children]) or ('tok', sym)."""
        self._minexp()
        if sym in self.rules:
            return (sym, [self.expand_min(s) for s in self.best[sym]])
        return ('tok', sym)

    def contexts(self, start):
        """ctx[rule] = (parent rule, word of parent containing rule, index) along a shortest embedding."""
        self._minexp()
        ctx = {start: None}
        work = [start]
        while work:
            r = work.pop(0)
            S0 = frozenset({self.rules[r]})
            pref = {S0: ()}
            q = [S0]
            while q:
                S = q.pop(0)
                for a in sorted(S_firsts(S)):
                    if self.symcost(a) >= INF or (r, a) in self.banned:
                        continue
                    S2 = S_deriv(S, a)
                    if a in self.rules and a not in ctx:
                        c, suf = self.shortest_word(S2, r)
                        if suf is not None:
                            ctx[a] = (r, pref[S] + (a,) + suf, len(pref[S]))
                            work.append(a)
                    if S2 not in pref:
                        pref[S2] = pref[S] + (a,)
                        q.append(S2)
        return ctx

    def embed(self, ctx, rule, subtree):
        while ctx[rule] is not None:
            parent, word, idx = ctx[rule]
            kids = [self.expand_min(s) for s in word]
            kids[idx] = subtree
            subtree = (parent, kids)
            rule = parent
        return subtree

    def automaton(self, rule):
        """Reachable reference states of a rule and their arcs: {state: {symbol: state}}."""
        S0 = self.start_state(rule)
        out = {}
        work = [S0]
        while work:
            S = work.pop()
            if S in out:
                continue
            arcs = {}
            for a in S_firsts(S):
                arcs[a] = S_deriv(S, a)
                work.append(arcs[a])
            out[S] = arcs
        return out


_loaded = {}


def grammar_path(version):
    major, minor = version.split('.')
    return os.path.join(env.REPO, 'parso', 'python', 'grammar%s%s.txt' % (major, minor))


def load(version):
    g = _loaded.get(version)
    if g is None:
        with open(grammar_path(version)) as f:
            g = _loaded[version] = RefGrammar(f.read())
    return g
