"""Re-execute one recorded violation without the explorer: python -m vp.replay <file>; exit 1 while it fails."""
import importlib
import json
import sys


def run(path):
    from . import env
    env.setup()
    with open(path) as f:
        body = json.load(f)
    mod = importlib.import_module('vp.props.' + body['property'].lower())
    sigs = mod.recheck(body['case'])
    want = tuple(body['sig'])
    print('replay %s: property=%s case=%s' % (path, body['property'], json.dumps(body['case'])))
    print('observed signatures:', sorted(sigs))
    if want in sigs:
        print('STILL FAILS: %s' % (list(want),))
        return 1
    print('does not fail (recorded signature not observed)')
    return 0


if __name__ == '__main__':
    sys.exit(run(sys.argv[1]))
