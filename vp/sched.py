"""Engine E-S: cooperative schedule explorer for real threads, built on sys.settrace line events.

Each worker thread owns a semaphore (baton).  At every traced line event (files under the repo's
parso/ directory) the running thread asks whether to continue or hand the baton over.  A schedule
is (start thread, [(global step at which to preempt, thread to switch to)...]); when a thread
finishes the lowest-numbered unfinished thread continues (no preemption cost)."""
import os
import sys
import threading
import _thread


class _Baton:
    """binary semaphore on a raw lock (one futex operation per hand-over)"""
    __slots__ = ('l',)

    def __init__(self):
        self.l = _thread.allocate_lock()
        self.l.acquire()

    def acquire(self):
        self.l.acquire()

    def release(self):
        self.l.release()

from . import env


class Execution:
    def __init__(self, bodies, start=0, preempts=(), atomic=(), trace_filter=None):
        self.bodies = bodies
        self.n = len(bodies)
        self.sem = [_Baton() for _ in bodies]
        self.done = [False] * self.n
        self.results = [None] * self.n
        self.preempts = dict(preempts)       # global step -> thread to switch to
        self.step = 0
        self.cur = start
        self.start = start
        self.trace = []
        self.main = _Baton()
        self.prefix = os.path.join(env.REPO, 'parso') + os.sep
        self.atomic = set(atomic)            # function names executed without scheduling points
        self.atomic_depth = [0] * self.n
        self.trace_filter = trace_filter
        self.switches = 0

    def _tracer(self, tid):
        ex = self

        def local(frame, ev, arg):
            if ev == 'line':
                if ex.atomic_depth[tid]:
                    return local
                ex.step += 1
                ex.trace.append((tid, frame.f_code.co_name, frame.f_lineno))
                to = ex.preempts.get(ex.step)
                if to is not None and to != tid and not ex.done[to]:
                    ex.switches += 1
                    ex.cur = to
                    ex.sem[to].release()
                    ex.sem[tid].acquire()
            return local

        def atomic_local(frame, ev, arg):
            if ev == 'return':
                ex.atomic_depth[tid] -= 1
            return atomic_local

        def glob(frame, ev, arg):
            if ev != 'call':
                return None
            code = frame.f_code
            if not code.co_filename.startswith(ex.prefix):
                return None
            if code.co_name in ex.atomic:
                ex.atomic_depth[tid] += 1
                return atomic_local
            if ex.atomic_depth[tid]:
                return None
            if ex.trace_filter is not None and not ex.trace_filter(code):
                return None
            return local
        return glob

    def _next(self, tid):
        for k in range(1, self.n + 1):
            j = (tid + k) % self.n
            if not self.done[j]:
                return j
        return None

    def _run(self, tid):
        self.sem[tid].acquire()
        sys.settrace(self._tracer(tid))
        try:
            self.results[tid] = ('ok', self.bodies[tid]())
        except BaseException as e:
            import traceback
            self.results[tid] = ('exc', type(e).__name__, traceback.format_exc()[-800:])
        finally:
            sys.settrace(None)
            self.done[tid] = True
            nxt = self._next(tid)
            if nxt is None:
                self.main.release()
            else:
                self.cur = nxt
                self.sem[nxt].release()

    def go(self):
        crew = _crew(self.n)
        fins = [_Baton() for _ in range(self.n)]
        for i in range(self.n):
            crew[i].submit(self._run, i, fins[i])
        self.sem[self.start].release()
        self.main.acquire()
        for f in fins:
            f.acquire()            # every worker has left _run (tracing switched off)
        return self.results


class _Worker(threading.Thread):
    """long-lived worker thread: executions re-use it instead of creating threads (thread creation is by far
    the most expensive part of an execution when many processes explore in parallel)"""

    def __init__(self):
        super().__init__(daemon=True)
        self.q = _Baton()
        self.job = None
        self.start()

    def submit(self, fn, arg, fin):
        self.job = (fn, arg, fin)
        self.q.release()

    def run(self):
        while True:
            self.q.acquire()
            fn, arg, fin = self.job
            try:
                fn(arg)
            finally:
                fin.release()


_CREW = []


def _crew(n):
    while len(_CREW) < n:
        _CREW.append(_Worker())
    return _CREW
