"""setup_cmd: verify the environment the checks need (offline)."""
import os
import sys


def main():
    from . import env
    parso = env.setup()
    print('parso under test:', parso.__file__)
    missing = [v for v in env.PYENV if env.ref_python(v) is None]
    if missing:
        print('note: reference interpreters missing (those versions are skipped by C10/C12):', missing)
    for v in env.VERSIONS:
        parso.load_grammar(version=v)
    print('selftest ok')


if __name__ == '__main__':
    main()
