"""Engine E-G: grammar-derived sentences with their derivation trees.

G2(L): for every rule R reachable from the start rule and every symbol word w of L(R) with
|w| <= max(minlen(R)+1, L): R is put into its shortest context, every other nonterminal is expanded
by its shortest expansion.  A derivation tree is (rule, [children]) / ('tok', symbol)."""
import ast as pyast

from . import refgrammar as RG

SPELL = {'NAME': 'a', 'NUMBER': '1', 'STRING': "'s'", 'FSTRING_START': 'f"', 'FSTRING_STRING': 'x',
         'FSTRING_END': '"', 'ENDMARKER': ''}
ZERO = ('INDENT', 'DEDENT', 'ENDMARKER')

# spelling / layout deviation menus (bound 1 per sentence)
NAME_MENU = ['_x1', '\xe9', 'async_', 'l']
NUMBER_MENU = ['0x1f', '1_0.5e3j', '0o7', '0', '1.', '.5']
STRING_MENU = ['b"s"', "r'''s'''", '"""s"""', "u's'", '"s"']
FSTRING_STRING_MENU = ['yield', 'a b', '#']


def flatten(tree):
    if tree[0] == 'tok':
        return [tree[1]]
    out = []
    for k in tree[1]:
        out += flatten(k)
    return out


def render(toks, spell=None, sep=' ', indent=' ', newline='\n', special=None):
    """toks: list of symbols; spell: {index: text}; special: {index: text inserted before token}"""
    out = []
    ind = 0
    bol = True
    fstack = []          # per open f-string: [brace depth, format spec depth]
    for i, t in enumerate(toks):
        if t == 'NEWLINE':
            if special and i in special:
                out.append(special[i])
            out.append(newline)
            bol = True
            continue
        if t == 'INDENT':
            ind += 1
            continue
        if t == 'DEDENT':
            ind -= 1
            continue
        if t == 'ENDMARKER':
            continue
        if spell and i in spell:
            s = spell[i]
        elif t in SPELL:
            s = SPELL[t]
        else:
            s = pyast.literal_eval(t)
        in_spec = bool(fstack) and fstack[-1][1] > 0 and fstack[-1][0] == fstack[-1][1]
        if bol:
            out.append(indent * ind)
            bol = False
        elif t in ('FSTRING_STRING', 'FSTRING_END') or toks[i - 1] in ('FSTRING_START', 'FSTRING_STRING'):
            pass
        elif in_spec:
            pass          # inside a format spec every character is literal text
        elif special and i in special:
            out.append(special[i])
        else:
            out.append(sep)
        out.append(s)
        if t == 'FSTRING_START':
            fstack.append([0, 0])
        elif t == 'FSTRING_END':
            if fstack:
                fstack.pop()
        elif fstack:
            f = fstack[-1]
            if t in ("'{'", "'('", "'['"):
                f[0] += 1
            elif t in ("'}'", "')'", "']'"):
                f[0] -= 1
                if f[0] < f[1]:
                    f[1] = f[0]
            elif t == "':'" and f[0] - f[1] == 1:
                f[1] += 1
    return ''.join(out)


def intended(toks, spell=None):
    res = []
    for i, t in enumerate(toks):
        if t in ('INDENT', 'DEDENT', 'ENDMARKER'):
            res.append((t, ''))
        elif t == 'NEWLINE':
            res.append((t, None))
        elif spell and i in spell and t in ('NAME', 'NUMBER', 'FSTRING_STRING'):
            res.append((t, spell[i]))
        elif spell and i in spell and t == 'STRING':
            res.append((t, None))
        elif t in SPELL:
            res.append((t, SPELL[t]))
        else:
            v = pyast.literal_eval(t)
            res.append(('NAME' if (v[0].isalpha() or v[0] == '_') else 'OP', v))
    return res


def tokens_match(got, want):
    """got: [(type name, string)] from the real tokenizer; want: intended(); STRING with None = one or
    more STRING tokens (implicit concatenation), NEWLINE with None = any newline text."""
    i = 0
    for typ, s in want:
        if i >= len(got):
            return False
        if typ == 'STRING' and s is None:
            if got[i][0] != 'STRING':
                return False
            while i < len(got) and got[i][0] == 'STRING':
                i += 1
            continue
        if got[i][0] != typ:
            return False
        if s is not None and got[i][1] != s:
            return False
        i += 1
    return i == len(got)


def plausible(toks):
    """token sequences the tokenizer can produce: no NEWLINE at the start of a line"""
    prev = None
    for t in toks:
        if t == 'NEWLINE' and prev in (None, 'NEWLINE', 'INDENT', 'DEDENT'):
            return False
        prev = t
    return True


def canon_deriv(tree, spell=None, _ctr=None):
    """derivation tree -> nested tuple after the collapsing conventions"""
    if _ctr is None:
        _ctr = [0]
    if tree[0] == 'tok':
        i = _ctr[0]
        _ctr[0] += 1
        t = tree[1]
        if t in ('INDENT', 'DEDENT'):
            return None
        if t == 'NEWLINE':
            return ('leaf', 'NEWLINE', None)
        if spell and i in spell:
            return ('leaf', t, spell[i] if t != 'STRING' else None)
        if t in SPELL:
            return ('leaf', t, SPELL[t])
        return ('leaf', 'KW', pyast.literal_eval(t))
    kids = [canon_deriv(k, spell, _ctr) for k in tree[1]]
    kids = [k for k in kids if k is not None]
    if len(kids) == 1 and tree[0] not in ('file_input', 'eval_input'):
        return kids[0]
    name = tree[0]
    if name == 'lambdef_nocond':
        name = 'lambdef'
    return ('node', name, tuple(kids))


TYPEMAP = {'name': 'NAME', 'number': 'NUMBER', 'string': 'STRING', 'fstring_start': 'FSTRING_START',
           'fstring_string': 'FSTRING_STRING', 'fstring_end': 'FSTRING_END', 'endmarker': 'ENDMARKER',
           'newline': 'NEWLINE'}


def canon_parso(n, string_any=False):
    if hasattr(n, 'children'):
        kids = []
        for c in n.children:
            if c.type == 'param':
                kids += [canon_parso(x, string_any) for x in c.children]
            else:
                kids.append(canon_parso(c, string_any))
        return ('node', n.type, tuple(kids))
    if n.type in ('keyword', 'operator'):
        return ('leaf', 'KW', n.value)
    if n.type == 'newline':
        return ('leaf', 'NEWLINE', None)
    t = TYPEMAP.get(n.type, n.type)
    return ('leaf', t, n.value)


def flatten_params_deriv(c):
    """typedargslist/varargslist nodes under parameters/lambdef are spliced (param convention)"""
    if c[0] != 'node':
        return c
    kids = [flatten_params_deriv(k) for k in c[2]]
    if c[1] in ('parameters', 'lambdef'):
        new = []
        for k in kids:
            if k[0] == 'node' and k[1] in ('typedargslist', 'varargslist'):
                new += list(k[2])
            else:
                new.append(k)
        kids = new
    return ('node', c[1], tuple(kids))


def same_canon(a, b):
    """structural equality where a leaf value None on the derivation side matches anything"""
    if a[0] != b[0]:
        return False
    if a[0] == 'leaf':
        if a[1] == 'STRING' and a[2] is None:
            # implicit concatenation: parso may have built a `strings` node; handled by caller
            return b[1] == 'STRING'
        return a[1] == b[1] and (a[2] is None or b[2] is None or a[2] == b[2])
    if a[1] != b[1] or len(a[2]) != len(b[2]):
        return False
    return all(same_canon(x, y) for x, y in zip(a[2], b[2]))


class Generator:
    def __init__(self, version, start):
        self.version = version
        self.start = start
        self.ref = RG.load(version)
        self.ctx = self.ref.contexts(start)
        self.unreachable = [r for r in self.ref.order if r not in self.ctx]
        self.covered = set()

    def sentences(self, L, rules=None):
        """yield (rule, word, derivation tree, token symbols) for family G2(L)"""
        ref = self.ref
        for rule in ref.order:
            if rule not in self.ctx or (rules is not None and rule not in rules):
                continue
            ml = ref.minlen(rule)
            seen_words = set()
            for w in ref.words(rule, max(ml + 1, L)):
                seen_words.add(w)
                sub = (rule, [ref.expand_min(s) for s in w])
                tree = ref.embed(self.ctx, rule, sub)
                yield rule, w, tree, flatten(tree)
            # arc-covering words: for every automaton arc a shortest word through it (so that every
            # alternative of every reachable rule is exercised whatever L is)
            for w in self.arc_words(rule):
                if w not in seen_words:
                    seen_words.add(w)
                    sub = (rule, [ref.expand_min(s) for s in w])
                    tree = ref.embed(self.ctx, rule, sub)
                    yield rule, w, tree, flatten(tree)

    def arc_words(self, rule):
        ref = self.ref
        S0 = ref.start_state(rule)
        pref = {S0: ()}
        q = [S0]
        out = []
        while q:
            S = q.pop(0)
            for a in sorted(RG.S_firsts(S)):
                if ref.symcost(a) >= RG.INF or (rule, a) in ref.banned:
                    continue
                S2 = RG.S_deriv(S, a)
                c, suf = ref.shortest_word(S2, rule)
                if suf is not None:
                    out.append(pref[S] + (a,) + suf)
                if S2 not in pref:
                    pref[S2] = pref[S] + (a,)
                    q.append(S2)
        return out

    def nested(self, L1):
        """G2^2: each nonterminal occurrence of a word (<= minlen+1) expanded by each of its own words
        of length <= minlen+1, one at a time"""
        ref = self.ref
        for rule in ref.order:
            if rule not in self.ctx:
                continue
            ml = ref.minlen(rule)
            for w in ref.words(rule, ml + 1):
                for i, s in enumerate(w):
                    if s not in ref.rules:
                        continue
                    ml2 = ref.minlen(s)
                    for w2 in ref.words(s, min(ml2 + 1, L1)):
                        kids = [ref.expand_min(x) for x in w]
                        kids[i] = (s, [ref.expand_min(x) for x in w2])
                        tree = ref.embed(self.ctx, rule, (rule, kids))
                        yield rule, w + ('|%d|' % i,) + w2, tree, flatten(tree)

    def mark(self, tree):
        """record the automaton arcs exercised by a derivation tree"""
        if tree[0] == 'tok':
            return
        S = self.ref.start_state(tree[0])
        for k in tree[1]:
            sym = k[1] if k[0] == 'tok' else k[0]
            self.covered.add((tree[0], S, sym))
            S = RG.S_deriv(S, sym)
            self.mark(k)

    def arc_coverage(self):
        total = 0
        missing = []
        for rule in self.ctx:
            for S, arcs in self.ref.automaton(rule).items():
                for a in arcs:
                    if self.ref.symcost(a) >= RG.INF or (rule, a) in self.ref.banned:
                        continue
                    total += 1
                    if (rule, S, a) not in self.covered:
                        missing.append((rule, a))
        return total, missing


def deviations(toks):
    """one spelling/layout deviation per rendering: yields (label, kwargs for render, spell map)"""
    for i, t in enumerate(toks):
        menu = NAME_MENU if t == 'NAME' else NUMBER_MENU if t == 'NUMBER' else STRING_MENU if t == 'STRING' else \
            FSTRING_STRING_MENU if t == 'FSTRING_STRING' else None
        if menu:
            for alt in menu:
                yield ('spell', dict(spell={i: alt}), {i: alt})
    yield ('sep2', dict(sep='  '), None)
    yield ('septab', dict(sep='\t'), None)
    yield ('indent4', dict(indent='    '), None)
    yield ('indenttab', dict(indent='\t'), None)
    yield ('crlf', dict(newline='\r\n'), None)
    yield ('cr', dict(newline='\r'), None)
    depth = 0
    fdepth = 0
    for i, t in enumerate(toks):
        if t == 'FSTRING_START':
            fdepth += 1
        elif t == 'FSTRING_END':
            fdepth -= 1
        if t == 'NEWLINE':
            yield ('comment', dict(special={i: ' # c'}), None)
        elif i > 0 and t not in ZERO and toks[i - 1] not in ('NEWLINE', 'INDENT', 'DEDENT') and \
                t not in ('FSTRING_STRING', 'FSTRING_END') and \
                toks[i - 1] not in ('FSTRING_START', 'FSTRING_STRING') and fdepth == 0:
            if depth > 0:
                yield ('linebreak-in-brackets', dict(special={i: '\n  '}), None)
            else:
                yield ('backslash', dict(special={i: ' \\\n  '}), None)
            yield ('nosep', dict(special={i: ''}), None)
        if t in ("'('", "'['", "'{'"):
            depth += 1
        elif t in ("')'", "']'", "'}'"):
            depth -= 1


# ---- G3: single-token mutants of G2 sentences ("almost valid programs") ---------------------------
G3_VOCAB = ["'('", "')'", "':'", 'NAME', 'NUMBER', "'='", "','", "'def'", "'if'", 'NEWLINE', 'INDENT', 'DEDENT',
            "'lambda'", "'*'", "'.'", "'['", "']'", "'in'", "'else'", "'return'", "'yield'", "';'", "'@'", 'STRING',
            "'async'"]


def g3_texts(version, L, shard_no=0, nshards=1, vocab=None, slice_mod=None, slice_eq=0):
    """every single-token deletion, duplication, replacement and insertion (from a fixed vocabulary) at every
    position of every G2(L) sentence.  Sentences are dealt to shards by index; texts are de-duplicated within a
    shard (mutants of two different sentences may coincide across shards)."""
    import zlib
    vocab = G3_VOCAB if vocab is None else vocab
    gen = Generator(version, 'file_input')
    seen = set()
    idx = -1
    for rule, w, tree, toks in gen.sentences(L):
        if not plausible(toks):
            continue
        idx += 1
        if idx % nshards != shard_no:
            continue
        toks = [t for t in toks if t != 'ENDMARKER']
        n = len(toks)
        cands = [toks]
        for i in range(n):
            cands.append(toks[:i] + toks[i + 1:])
            cands.append(toks[:i + 1] + [toks[i]] + toks[i + 1:])
            for v in vocab:
                if v != toks[i]:
                    cands.append(toks[:i] + [v] + toks[i + 1:])
                cands.append(toks[:i] + [v] + toks[i:])
        for v in vocab:
            cands.append(toks + [v])
        for c in cands:
            t = render(c)
            if slice_mod and (zlib.crc32(t.encode('utf-8', 'surrogatepass')) // 7919) % slice_mod != slice_eq:
                continue
            if t in seen:
                continue
            seen.add(t)
            yield t
