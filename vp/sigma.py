"""Engine E-A driver: run a text oracle over every text of Sigma^{<=n}, sharded over processes.

A text-oracle module provides
    PROP                         property id
    setup(fam) -> ctx            (per process; grammars etc.)
    check_text(ctx, fam, text, acc)
    RULES (optional)             {rule name: fn(case, sig, extra, match) -> bool} for known-finding rules
"""
import importlib

from . import alphabets, core, env

NSHARDS = 64
_ctx_cache = {}


def _ctx(modname, fam):
    key = (modname, tuple(fam.get('versions', ())), fam.get('ctxkey'))
    c = _ctx_cache.get(key)
    if c is None:
        mod = importlib.import_module(modname)
        c = _ctx_cache[key] = mod.setup(fam)
    return c


def make_acc(mod):
    acc = core.Acc()
    fnd = core.Findings(mod.PROP)
    rules = getattr(mod, 'RULES', None)
    acc.classify = lambda sig, case, extra: fnd.match(sig, case, rules, extra)
    return acc


def shard(modname, fam, shard_no, nshards):
    env.setup()
    mod = importlib.import_module(modname)
    ctx = _ctx(modname, fam)
    acc = make_acc(mod)
    first = last = None
    if fam.get('kind') == 'g3':
        from . import sentences
        source = sentences.g3_texts(fam['gversion'], fam['n'], shard_no, nshards, None,
                                    fam.get('slice_mod'), fam.get('slice_eq', 0))
    else:
        source = alphabets.enum(fam['alphabet'], fam['n'], shard_no, nshards, fam.get('n_lo', 0),
                                fam.get('slice_mod'), fam.get('slice_eq', 0))
    for text in source:
        mod.check_text(ctx, fam, text, acc)
        if first is None:
            first = text
        last = text
    if shard_no in (0, nshards // 2) and last is not None:
        acc.samples.append({'family': fam['name'], 'text': first})
        acc.samples.append({'family': fam['name'], 'text': last})
    return fam['name'], acc.strip()


def sweep(R, modname, fams, nshards=NSHARDS):
    """Run all (family, shard) tasks on the pool; one evidence section per family."""
    accs = {f['name']: core.Acc() for f in fams}
    tasks = [(modname, f, s, nshards) for f in fams for s in range(nshards)]
    # interleave families so that the big ones do not serialise at the end
    tasks.sort(key=lambda t: (t[2], t[1]['name']))
    for name, a in core.pmap('vp.sigma', 'shard', tasks):
        accs[name].merge(a)
    for f in fams:
        info = {k: v for k, v in f.items() if k in ('alphabet', 'n', 'n_lo', 'versions', 'slice_mod',
                                                      'slice_eq', 'kind')}
        if f.get('kind') == 'g3':
            info['vocabulary'] = 'sentences.G3_VOCAB (25 grammar symbols)'
        else:
            info['symbols'] = alphabets.describe(f['alphabet'])
        R.section(f['name'], accs[f['name']], **info)


def recheck_text(modname, case):
    """Execute one recorded case again on its own and return the set of signatures it produces."""
    env.setup()
    mod = importlib.import_module(modname)
    fam = dict(case.get('fam') or {})
    fam.setdefault('name', 'replay')
    if 'version' in case:
        fam['versions'] = [case['version']]
    ctx = mod.setup(fam)
    acc = core.Acc()
    mod.check_text(ctx, fam, case['text'], acc)
    return {sig for (_, sig) in acc.fails}


def fam(alphabet, n, versions, name=None, **kw):
    d = dict(name=name or '%s<=%d' % (alphabet, n), alphabet=alphabet, n=n, versions=list(versions),
             kind='sigma')
    d.update(kw)
    return d


def seed_slice(alphabet, n, versions, seed, mod=64):
    """The deterministic slice of level n (texts of exactly n symbols) selected by the seed."""
    return fam(alphabet, n, versions, name='%s=%d/slice%d' % (alphabet, n, seed % mod), n_lo=n,
               slice_mod=mod, slice_eq=seed % mod)


def g3(gversion, L, versions=None, slice_mod=None, slice_eq=0, name=None):
    """single-token mutants of the G2(L) sentences of grammar `gversion`, judged under `versions`"""
    d = dict(name=name or 'G3(%d)/%s%s' % (L, gversion, '/slice%d' % slice_eq if slice_mod else ''),
             alphabet='g3', n=L, versions=list(versions or [gversion]), kind='g3', gversion=gversion)
    if slice_mod:
        d.update(slice_mod=slice_mod, slice_eq=slice_eq)
    return d
