"""Independent helpers over parso trees (no use of parso's own navigation code)."""
BOM = '\ufeff'


def leaves(node):
    try:
        ch = node.children
    except AttributeError:
        yield node
    else:
        for c in ch:
            yield from leaves(c)


def nodes(node):
    yield node
    try:
        ch = node.children
    except AttributeError:
        return
    for c in ch:
        yield from nodes(c)


def has_err(node):
    if node.type in ('error_node', 'error_leaf'):
        return True
    try:
        ch = node.children
    except AttributeError:
        return False
    return any(has_err(c) for c in ch)


def advance(pos, s, at_file_start=False):
    """Walk (line, col) through s: only \\n, \\r\\n, \\r break lines; a BOM at file offset 0 has width 0."""
    line, col = pos
    i = 0
    n = len(s)
    while i < n:
        c = s[i]
        if c == '\r':
            if i + 1 < n and s[i + 1] == '\n':
                i += 1
            line += 1
            col = 0
        elif c == '\n':
            line += 1
            col = 0
        elif c == BOM and at_file_start and i == 0:
            pass
        else:
            col += 1
        i += 1
    return (line, col)


def ref_split_lines(s):
    """Reference splitter: pieces with line ends kept; only \\n, \\r\\n, \\r; always >= 1 piece."""
    out = []
    cur = []
    i = 0
    n = len(s)
    while i < n:
        c = s[i]
        cur.append(c)
        if c == '\r':
            if i + 1 < n and s[i + 1] == '\n':
                cur.append('\n')
                i += 1
            out.append(''.join(cur))
            cur = []
        elif c == '\n':
            out.append(''.join(cur))
            cur = []
        i += 1
    out.append(''.join(cur))
    return out


def is_zero_width(leaf):
    """INDENT/DEDENT/ERROR_DEDENT turned into an error leaf: no text at all."""
    return leaf.type == 'error_leaf' and leaf.value == '' and leaf.prefix == '' and \
        leaf.token_type in ('INDENT', 'DEDENT', 'ERROR_DEDENT')


def offsets(root):
    """[(leaf, start_of_prefix_offset, start_of_value_offset, end_offset)] by concatenating prefix+value."""
    out = []
    off = 0
    for l in leaves(root):
        a = off
        b = a + len(l.prefix)
        c = b + len(l.value)
        out.append((l, a, b, c))
        off = c
    return out, off


def parents_ok(root):
    """Every child's parent is the node that lists it; no node object is listed twice; root has no parent."""
    if root.parent is not None:
        return 'root has a parent'
    seen = set()
    stack = [root]
    while stack:
        n = stack.pop()
        if id(n) in seen:
            return 'node object listed twice'
        seen.add(id(n))
        try:
            ch = n.children
        except AttributeError:
            continue
        for c in ch:
            if c.parent is not n:
                return 'child.parent is not the listing node'
            stack.append(c)
    return None


def structure(node):
    """(type, value/children, prefix, start_pos) nested tuple - an independent structural digest."""
    try:
        ch = node.children
    except AttributeError:
        return (type(node).__name__, node.type, node.value, node.prefix, node.start_pos)
    return (type(node).__name__, node.type, tuple(structure(c) for c in ch))


def ref_positions(root, text):
    """Independent positions of every leaf: {id(leaf): (prefix_start, start, end)} from walking the text;
    zero-width indentation error leaves get the placement rule (start = end = start of the next
    text-bearing leaf) and prefix_start None.  Returns (positions, final_position, problem_or_None)."""
    pos = (1, 0)
    off = 0
    out = {}
    pending = []
    for l in leaves(root):
        if is_zero_width(l):
            pending.append(l)
            continue
        p_start = pos
        s = advance(pos, l.prefix, off == 0)
        e = advance(s, l.value, off == 0 and not l.prefix)
        for z in pending:
            out[id(z)] = (None, s, s)
        pending = []
        out[id(l)] = (p_start, s, e)
        off += len(l.prefix) + len(l.value)
        pos = e
    problem = 'zero-width leaf after the last text-bearing leaf' if pending else None
    for z in pending:
        out[id(z)] = (None, pos, pos)
    return out, pos, problem


def text_positions(text):
    """Every (line, col) that some offset 0..len(text) of the text maps to, in order, de-duplicated."""
    out = []
    pos = (1, 0)
    out.append(pos)
    i = 0
    n = len(text)
    while i < n:
        c = text[i]
        if c == '\r' and i + 1 < n and text[i + 1] == '\n':
            step = 2
        else:
            step = 1
        pos = advance(pos, text[i:i + step], i == 0)
        i += step
        if out[-1] != pos:
            out.append(pos)
    return out
